#!/usr/bin/env python3
"""vdriver — build → instrument → cbmc pool → triage → replay → evidence.

One *job* = one harness compiled from /repo's current working tree with one
set of -D defines, optionally instrumented by goto-instrument --dfcc (route D:
function/loop contracts enforced on the real function) and decided by cbmc.

Verdicts
  pass       every obligation SUCCESS, canary FAILED as it must, vacuity guards ok
  fail       >=1 obligation FAILURE (not listed in known-findings)
  undecided  tool error, timeout, memory limit, changed loop shape, missing
             symbol, canary not reachable ... -> exit 2, never a VIOLATION
"""
import json, os, re, shutil, struct, subprocess, sys, tempfile, time, atexit, hashlib
from concurrent.futures import ThreadPoolExecutor, as_completed

VERIF = os.path.dirname(os.path.dirname(os.path.abspath(__file__)))
REPO = os.environ.get("VERIF_REPO", "/repo")
NPROC = int(os.environ.get("VERIF_JOBS", str(os.cpu_count() or 4)))
MEM_KB = int(os.environ.get("VERIF_MEM_KB", str(14 * 1024 * 1024)))
TIME_SCALE = float(os.environ.get("VERIF_TIME_SCALE", "1.0"))

_scratch = None


def scratch():
    global _scratch
    if _scratch is None:
        base = os.environ.get("VERIF_SCRATCH") or tempfile.gettempdir()
        _scratch = tempfile.mkdtemp(prefix="verif-", dir=base)
        atexit.register(lambda: shutil.rmtree(_scratch, ignore_errors=True))
        # config.h / pixman-version.h: the ones of the current build if present,
        # else the frozen copies of the values the baseline build uses
        cfg = os.path.join(_scratch, "cfg")
        os.makedirs(cfg)
        for f in ("config.h", "pixman-version.h"):
            src = os.path.join(REPO, "_build", "pixman", f)
            if not os.path.exists(src):
                src = os.path.join(VERIF, "cfg", f)
            shutil.copy(src, os.path.join(cfg, f))
    return _scratch


def cfg_origin():
    return ("/repo/_build/pixman" if os.path.exists(os.path.join(REPO, "_build", "pixman", "config.h"))
            else "/verif/cfg (frozen copy)")


class Job:
    def __init__(self, name, harness, *, defines=None, entry="harness", route="H",
                 enforce=None, replace=None, loops=None, cbmc_flags=None, unwind=None,
                 kind="proof", bound="", functions=None, timeout=600, solver="kissat",
                 includes=None, min_props=1, replayable=True, note="", domain="",
                 extra_sources=None, rec=False, object_bits=None, nocanary=False,
                 assumptions=None, termination_by_unwind=False):
        self.name = name
        self.harness = harness            # path relative to /verif/harness
        self.defines = dict(defines or {})
        self.entry = entry
        self.route = route                # 'H' explicit assume/call/assert, 'D' dfcc
        self.enforce = enforce            # real function whose contract ct_<fn> is enforced
        self.replace = list(replace or [])
        self.loops = loops or {}          # {function: [ {assigns,invariants,decreases,vars}, ... ]}
        self.cbmc_flags = list(cbmc_flags or [])
        self.unwind = unwind
        self.kind = kind                  # 'proof' | 'bounded'
        self.bound = bound
        self.functions = list(functions or [])
        self.timeout = timeout
        self.solver = solver
        self.includes = list(includes or [])
        self.min_props = min_props
        self.replayable = replayable
        self.note = note
        self.domain = domain
        self.extra_sources = list(extra_sources or [])
        self.rec = rec
        self.object_bits = object_bits
        self.nocanary = nocanary
        self.assumptions = list(assumptions or [])
        # True: a failed unwinding assertion IS the obligation (termination within the bound, e.g. C17 probing);
        # False (default): a failed unwinding assertion only says the unwinding bound is too small for the current
        # code -> undecided (exit 2), never a violation
        self.termination_by_unwind = termination_by_unwind



# ---- extension modules (props/<Cnn>_<tag>.py: jobs(tier) + META_EXTRA) merged into a property's job list ----
def ext_jobs(tier, modules):
    """modules: [(module name, name filter or None)] -> jobs of the extension modules (a missing module is skipped)"""
    import importlib
    out = []
    for mod, flt in modules:
        try:
            m = importlib.import_module(mod)
        except ImportError:
            continue
        for j in m.jobs(tier):
            if flt is None or flt(j.name):
                out.append(j)
    return out


def ext_meta(meta, modules):
    import importlib
    for mod, _ in modules:
        try:
            m = importlib.import_module(mod)
        except ImportError:
            continue
        ex = getattr(m, "META_EXTRA", {})
        for k in ("trusted_base", "assumptions", "not_covered"):
            meta.setdefault(k, [])
            meta[k] = list(meta[k]) + [x for x in ex.get(k, []) if x not in meta[k]]
    return meta

def sh(cmd, timeout=None, cwd=None, mem_kb=None, env=None):
    """run, return (rc, stdout, stderr, secs, timed_out)"""
    t0 = time.time()
    pre = None
    if mem_kb:
        import resource

        def pre():
            try:
                soft, hard = resource.getrlimit(resource.RLIMIT_AS)
                lim = mem_kb * 1024
                if hard != resource.RLIM_INFINITY:
                    lim = min(lim, hard)
                resource.setrlimit(resource.RLIMIT_AS, (lim, hard))
            except Exception:
                pass
            os.setsid()
    else:
        pre = os.setsid
    e = dict(os.environ)
    if env:
        e.update(env)
    p = subprocess.Popen(cmd, stdout=subprocess.PIPE, stderr=subprocess.PIPE, cwd=cwd,
                         preexec_fn=pre, env=e)
    try:
        out, err = p.communicate(timeout=timeout)
        to = False
    except subprocess.TimeoutExpired:
        import signal
        try:
            os.killpg(p.pid, signal.SIGKILL)
        except Exception:
            p.kill()
        out, err = p.communicate()
        to = True
    return p.returncode, out.decode("utf-8", "replace"), err.decode("utf-8", "replace"), time.time() - t0, to


def include_flags():
    s = scratch()
    return ["-I" + os.path.join(s, "cfg"), "-I" + os.path.join(REPO, "pixman"),
            "-I" + os.path.join(VERIF, "spec"), "-I" + os.path.join(VERIF, "harness", "common"),
            "-I" + os.path.join(VERIF, "models"), "-I" + os.path.join(VERIF, "contracts")]


def define_flags(job, extra=None):
    d = {"HAVE_CONFIG_H": 1, "PIXMAN_VERIF": 1}
    d.update(job.defines)
    if extra:
        d.update(extra)
    out = []
    for k, v in d.items():
        out.append("-D%s" % k if v is None else "-D%s=%s" % (k, v))
    return out


# ---------------------------------------------------------------- loop contracts
def real_loops(gb, fn):
    """loop ids of `fn` in the goto binary whose back edge is not the constant
    `0 != 0` of a macro-generated do{}while(0); ids are numbered by goto-instrument
    in order of the backward gotos."""
    rc, out, err, _, _ = sh(["goto-instrument", "--show-goto-functions", gb], timeout=120)
    m = re.search(r"^%s /\* %s \*/\n(.*?)END_FUNCTION" % (re.escape(fn), re.escape(fn)), out, re.S | re.M)
    if not m:
        m = re.search(r"^%s .*?\n(.*?)END_FUNCTION" % re.escape(fn), out, re.S | re.M)
    if not m:
        return None
    body = m.group(1)
    # instruction labels "   N: " appear before targets; a back edge is a GOTO to a
    # label defined earlier in the text
    seen = set()
    loops = []
    for line in body.splitlines():
        lab = re.match(r"\s+(\d+): ", line)
        if lab:
            seen.add(lab.group(1))
        g = re.search(r"(?:IF (.*) THEN )?GOTO (\d+)\s*$", line)
        if g and g.group(2) in seen:
            loops.append(g.group(1))
    ids = []
    for i, guard in enumerate(loops):
        if guard is not None and re.fullmatch(r"0 ≠ 0|false|FALSE", guard.strip()):
            continue
        ids.append(i)
    return ids


def symbol_table(gb):
    rc, out, err, _, _ = sh(["goto-instrument", "--show-symbol-table", gb], timeout=120)
    return re.findall(r"^Symbol\.+: (\S+)$", out, re.M)


_TYPEDEFS = [(r"\buint32_t\b", "unsigned int"), (r"\bint32_t\b", "signed int"), (r"\buint8_t\b", "unsigned char"),
             (r"\buint16_t\b", "unsigned short"), (r"\bint16_t\b", "signed short"), (r"\buint64_t\b", "unsigned long"),
             (r"\bint64_t\b", "signed long"), (r"\bsize_t\b", "unsigned long")]


def expand_macros(text, job, workdir, headers):
    src = os.path.join(workdir, "exp.c")
    with open(src, "w") as f:
        for h in headers:
            f.write('#include "%s"\n' % h)
        f.write("VC_EXPANSION_BEGIN\n%s\n" % text)
    rc, out, err, _, _ = sh(["gcc", "-E", "-P"] + include_flags() + define_flags(job, {"VH_CBMC": 1}) + [src], timeout=60)
    if rc != 0:
        raise RuntimeError("cpp failed: " + err[-400:])
    out = out.split("VC_EXPANSION_BEGIN", 1)[1].strip()
    out = " ".join(out.split())
    for a, b in _TYPEDEFS:
        out = re.sub(a, b, out)
    return out


def make_loop_file(job, gb, workdir):
    syms = symbol_table(gb)
    funcs = []
    for fn, specs in job.loops.items():
        ids = real_loops(gb, fn)
        if ids is None:
            raise Undecided("function %s not found in goto program (renamed/removed?)" % fn)
        if len(ids) != len(specs):
            raise Undecided("loop shape changed: %s has %d source loops, %d loop-contract templates"
                            % (fn, len(ids), len(specs)))
        entries = []
        for lid, sp in zip(ids, specs):
            if sp is None:
                continue
            smap = []
            for v in sp.get("vars", []):
                if "=" in v:
                    short, full = v.split("=", 1)
                else:
                    short = v
                    cands = [s for s in syms if s == v or (s.startswith(fn + "::") and s.split("::")[-1] == v)]
                    # parameters are fn::name, locals fn::1::name...; prefer shortest
                    cands.sort(key=len)
                    if not cands:
                        raise Undecided("symbol %s of %s not found (renamed?)" % (v, fn))
                    full = cands[0]
                smap.append("%s,%s" % (short, full))
            hdrs = sp.get("headers", job.loops_headers if hasattr(job, "loops_headers") else ["spec_un8.h"])
            e = {"loop_id": str(lid),
                 "assigns": expand_macros(sp["assigns"], job, workdir, hdrs),
                 "invariants": expand_macros(sp["invariants"], job, workdir, hdrs),
                 "symbol_map": ";".join(smap)}
            if sp.get("decreases"):
                e["decreases"] = expand_macros(sp["decreases"], job, workdir, hdrs)
            entries.append(e)
        funcs.append({fn: entries})
    path = os.path.join(workdir, "loops.json")
    with open(path, "w") as f:
        json.dump({"sources": [os.path.basename(job.harness)], "functions": funcs, "output": "OUTPUT"}, f, indent=1)
    return path


class Undecided(Exception):
    pass


# ---------------------------------------------------------------- one job
def src_path(s):
    """extra source: 'repo:pixman/x.c' = file of the tree under check, '/abs', or relative to /verif"""
    if s.startswith("repo:"):
        return os.path.join(REPO, s[5:])
    return s if s.startswith("/") else os.path.join(VERIF, s)


def solver_flags(job):
    if job.solver == "kissat":
        return ["--external-sat-solver", "kissat"]
    if job.solver == "z3":
        return ["--z3"]
    if job.solver == "cvc5":
        return ["--cvc5"]
    return ["--sat-solver", "cadical"]


def build_job(job, workdir, extra_defs=None):
    hpath = os.path.join(VERIF, "harness", job.harness)
    gb = os.path.join(workdir, "a.gb")
    srcs = [hpath] + [src_path(s) for s in job.extra_sources]
    defs = {"VH_CBMC": 1}
    if job.nocanary:
        defs["VH_NO_CANARY"] = 1
    if extra_defs:
        defs.update(extra_defs)
    cmd = ["goto-cc"] + include_flags() + define_flags(job, defs) + ["--function", job.entry] + srcs + ["-o", gb]
    rc, out, err, secs, to = sh(cmd, timeout=300)
    if rc != 0 or not os.path.exists(gb):
        raise Undecided("goto-cc failed: " + (err or out)[-1500:])
    final = gb
    if job.route == "D":
        b2 = os.path.join(workdir, "b.gb")
        cmd = ["goto-instrument", "--dfcc", job.entry]
        if job.enforce:
            cmd += ["--enforce-contract-rec" if job.rec else "--enforce-contract", "%s/ct_%s" % (job.enforce, job.enforce)]
        for r in job.replace:
            cmd += ["--replace-call-with-contract", "%s/ct_%s" % (r, r)]
        if job.loops:
            lf = make_loop_file(job, gb, workdir)
            cmd += ["--loop-contracts-file", lf, "--apply-loop-contracts"]
        cmd += [gb, b2]
        rc, out, err, secs, to = sh(cmd, timeout=300, mem_kb=MEM_KB)
        if rc != 0 or not os.path.exists(b2):
            raise Undecided("goto-instrument --dfcc failed: " + (out + err)[-1500:])
        final = b2
    elif job.replace:
        b2 = os.path.join(workdir, "b.gb")
        cmd = ["goto-instrument"]
        for r in job.replace:
            cmd += ["--replace-call-with-contract", r]
        cmd += [gb, b2]
        rc, out, err, secs, to = sh(cmd, timeout=300, mem_kb=MEM_KB)
        if rc != 0:
            raise Undecided("goto-instrument replace failed: " + (out + err)[-1500:])
        final = b2
    return final


def cbmc_cmd(job, gb, trace=False):
    cmd = ["cbmc", gb, "--json-ui", "--drop-unused-functions", "--no-malloc-may-fail"] + solver_flags(job)
    if job.unwind is not None:
        cmd += ["--unwind", str(job.unwind), "--unwinding-assertions"]
        # byte loops of cbmc's own library models get a generous bound of their own, so that code which (newly) calls
        # memcmp on a few dozen bytes is decided instead of tripping the job's small unwinding bound
        if not any(f == "--unwindset" for f in job.cbmc_flags):
            cmd += ["--unwindset", "memcmp.0:%d" % max(72, job.unwind)]
    if job.object_bits:
        cmd += ["--object-bits", str(job.object_bits)]
    cmd += job.cbmc_flags
    if trace:
        cmd += ["--trace"]
    return cmd


def parse_cbmc(out):
    try:
        doc = json.loads(out)
    except Exception:
        # truncated output (killed): salvage nothing
        return None, None, []
    results, status, msgs = None, None, []
    for e in doc:
        if "result" in e:
            results = e["result"]
        if "cProverStatus" in e:
            status = e["cProverStatus"]
        if e.get("messageType") in ("ERROR", "WARNING"):
            msgs.append(e.get("messageText", ""))
    return results, status, msgs


class PyJob(Job):
    """a job decided by a python function instead of cbmc: fn(workdir) -> [(obligation_name, ok_bool, detail_str)].
    Used for whole-program facts read off the goto symbol table / goto functions (C16)."""
    def __init__(self, name, fn, **kw):
        kw.setdefault("replayable", False)
        Job.__init__(self, name, "(python)", **kw)
        self.fn = fn


def run_pyjob(job):
    t0 = time.time()
    res = {"job": job.name, "kind": job.kind, "bound": job.bound, "functions": job.functions, "route": "static-fact",
           "backend": "goto-cc symbol table + goto functions", "status": "undecided", "obligations": 0, "discharged": 0,
           "failed": [], "reason": "", "secs": 0.0, "domain": job.domain, "note": job.note, "harness": job.harness,
           "defines": job.defines, "assumptions": job.assumptions}
    workdir = tempfile.mkdtemp(prefix=re.sub(r"[^A-Za-z0-9_.-]", "_", job.name) + "-", dir=scratch())
    try:
        obl = job.fn(workdir)
        if len(obl) < job.min_props:
            raise Undecided("vacuity guard: %d obligations, expected >= %d" % (len(obl), job.min_props))
        res["obligations"] = len(obl)
        bad = [o for o in obl if not o[1]]
        res["discharged"] = len(obl) - len(bad)
        res["sample_obligations"] = [{"property": o[0], "description": o[2][:160]} for o in obl[:3]]
        res["failed"] = [{"property": o[0], "description": o[2]} for o in bad]
        res["status"] = "fail" if bad else "pass"
    except Undecided as e:
        res["reason"] = str(e)
    except Exception as e:
        res["reason"] = "driver error: %r" % (e,)
    res["secs"] = round(time.time() - t0, 2)
    res["_workdir"] = workdir
    return res


def parse_cbmc_text(out):
    res, fn, fl = [], None, None
    if "** Results:" not in out:
        return None
    for line in out.split("** Results:", 1)[1].splitlines():
        m = re.match(r"^(\S+) function (\S+)$", line)
        if m:
            fl, fn = m.group(1), m.group(2)
            continue
        m = re.match(r"^\[(.+?)\] (?:line (\d+) )?(.*): (SUCCESS|FAILURE|UNKNOWN|ERROR)$", line)
        if m:
            res.append({"property": m.group(1), "description": m.group(3), "status": m.group(4),
                        "sourceLocation": {"line": m.group(2), "file": fl, "function": fn}})
    return res or None


def run_job(job):
    if isinstance(job, PyJob):
        return run_pyjob(job)
    t0 = time.time()
    res = {"job": job.name, "kind": job.kind, "bound": job.bound, "functions": job.functions,
           "route": job.route, "backend": "cbmc 6.11 + " + ("z3 (SMT2)" if "--z3" in job.cbmc_flags else job.solver), "status": "undecided",
           "obligations": 0, "discharged": 0, "failed": [], "reason": "", "secs": 0.0, "domain": job.domain,
           "note": job.note, "harness": job.harness, "defines": job.defines, "assumptions": job.assumptions}
    workdir = tempfile.mkdtemp(prefix=re.sub(r"[^A-Za-z0-9_.-]", "_", job.name) + "-", dir=scratch())
    try:
        gb = build_job(job, workdir)
        cmd = cbmc_cmd(job, gb)
        res["cmd"] = " ".join(cmd).replace(workdir, "<scratch>")
        rc, out, err, secs, to = sh(cmd, timeout=job.timeout * TIME_SCALE, mem_kb=MEM_KB, cwd=workdir,
                                    env={"TMPDIR": workdir})
        res["solver_secs"] = round(secs, 2)
        if to:
            raise Undecided("timeout after %ds" % (job.timeout * TIME_SCALE))
        results, status, msgs = parse_cbmc(out)
        if results is None and "Invariant check failed" in (out + err) and not to:
            # cbmc 6.11 sometimes aborts while *building the counterexample trace* of the (expected) canary failure in
            # --json-ui mode (boolbv_get.cpp:41).  The verdicts themselves are available in plain-text mode, which
            # builds no trace: rerun and parse the result lines.
            cmd2 = [c for c in cmd if c != "--json-ui"]
            rc, out2, err2, secs2, to = sh(cmd2, timeout=job.timeout * TIME_SCALE, mem_kb=MEM_KB, cwd=workdir, env={"TMPDIR": workdir})
            res["solver_secs"] = round(secs + secs2, 2)
            res["note"] = (res.get("note") or "") + " [verdicts parsed from cbmc text output: json-ui trace builder aborted]"
            if to:
                raise Undecided("timeout after %ds" % (job.timeout * TIME_SCALE))
            results = parse_cbmc_text(out2)
            msgs = [l for l in out2.splitlines() if "ignoring" in l]
        if results is None and not to:
            # transient tool failure (seen under heavy machine load: the external SAT solver process dies, rc=15): one retry
            time.sleep(2)
            rc, out, err, secs3, to = sh(cmd, timeout=job.timeout * TIME_SCALE, mem_kb=MEM_KB, cwd=workdir, env={"TMPDIR": workdir})
            res["solver_secs"] = round(res["solver_secs"] + secs3, 2)
            res["note"] = (res.get("note") or "") + " [second attempt after a tool failure without verdicts]"
            if to:
                raise Undecided("timeout after %ds" % (job.timeout * TIME_SCALE))
            results, status, msgs = parse_cbmc(out)
        if results is None:
            raise Undecided("cbmc gave no result list (rc=%s): %s" % (rc, (" | ".join(msgs) or err or out)[-1200:]))
        if any("ignoring" in m for m in msgs):
            raise Undecided("cbmc ignored part of the specification: " + "; ".join(m for m in msgs if "ignoring" in m)[:400])
        canary = [r for r in results if "VH_CANARY" in r.get("description", "")]
        obl = [r for r in results if "VH_CANARY" not in r.get("description", "")]
        if not job.nocanary:
            if not canary:
                raise Undecided("vacuity guard: no canary obligation generated")
            if any(c["status"] != "FAILURE" for c in canary) and not any(r["status"] == "FAILURE" for r in obl):
                # (an unreachable canary TOGETHER with failed obligations is not vacuity: e.g. a changed loop bound makes the
                # loop exit contradict the invariant while loop_invariant_step fails -- the failures are reported)
                raise Undecided("vacuity guard: canary not reachable (contradictory precondition or call does not return)")
        if len(obl) < job.min_props:
            raise Undecided("vacuity guard: %d obligations generated, expected >= %d" % (len(obl), job.min_props))
        if job.route == "D" and job.loops:
            names = " ".join(r["property"] for r in obl)
            nl = sum(len([s for s in v if s]) for v in job.loops.values())
            for key in ("loop_invariant_base", "loop_invariant_step"):
                if names.count(key) < nl:
                    raise Undecided("vacuity guard: loop contract silently dropped (%s obligations missing)" % key)
        if job.route == "D" and job.enforce:
            if not any("postcondition" in r["property"] for r in obl):
                raise Undecided("vacuity guard: no postcondition obligation for enforced contract")
        failed = [r for r in obl if r["status"] == "FAILURE"]
        bad_status = [r for r in obl if r["status"] not in ("SUCCESS", "FAILURE")]
        if bad_status and not failed:
            # (with a FAILURE present, CBMC 6's assert-then-assume leaves later checks UNKNOWN: the job has failed)
            raise Undecided("obligation with status %s: %s" % (bad_status[0]["status"], bad_status[0]["property"]))
        obl = [r for r in obl if r["status"] in ("SUCCESS", "FAILURE")]
        if not job.termination_by_unwind:
            unw = [r for r in failed if ".unwind." in r["property"] or r["property"].endswith(".unwind")]
            if unw and len(unw) == len(failed):
                raise Undecided("unwinding assertion failed (%s): the unwinding bound %s is too small for the current code"
                                % (unw[0]["property"], job.unwind))
            failed = [r for r in failed if r not in unw]
            obl = [r for r in obl if r not in unw]
        res["obligations"] = len(obl)
        res["discharged"] = len(obl) - len(failed)
        res["sample_obligations"] = [{"property": r["property"], "description": r.get("description", "")[:160]}
                                     for r in (obl[:2] + obl[-2:])]
        if failed:
            res["status"] = "fail"
            res["failed"] = [{"property": r["property"], "description": r.get("description", ""),
                              "line": r.get("sourceLocation", {}).get("line"),
                              "file": r.get("sourceLocation", {}).get("file"),
                              "function": r.get("sourceLocation", {}).get("function")} for r in failed]
        else:
            res["status"] = "pass"
    except Undecided as e:
        res["status"] = "undecided"
        res["reason"] = str(e)
    except Exception as e:  # framework error: never a verdict
        res["status"] = "undecided"
        res["reason"] = "driver error: %r" % (e,)
    finally:
        res["secs"] = round(time.time() - t0, 2)
        res["_workdir"] = workdir
    return res


# ---------------------------------------------------------------- triage / replay
def value_of(v):
    """trace value -> (python int or float)"""
    name = v.get("name")
    if name == "integer" or name == "boolean" or name == "pointer" or name is None:
        b = v.get("binary")
        t = v.get("type", "")
        if b is not None and re.fullmatch(r"[01]+", b):
            n = int(b, 2)
            signed = not ("unsigned" in t or t in ("_Bool", "bool") or t.startswith("uint"))
            if signed and b[0] == "1":
                n -= 1 << len(b)
            return n
        try:
            return int(v.get("data"))
        except Exception:
            return 0
    if name == "float":
        b = v.get("binary")
        if b and len(b) == 64:
            return struct.unpack(">d", int(b, 2).to_bytes(8, "big"))[0]
        if b and len(b) == 32:
            return struct.unpack(">f", int(b, 2).to_bytes(4, "big"))[0]
        try:
            return float(v.get("data"))
        except Exception:
            return 0.0
    return 0


def extract_inputs(trace, entry):
    ins = {}
    for st in trace:
        if st.get("stepType") != "assignment":
            continue
        lhs = st.get("lhs", "")
        if not re.fullmatch(r"in_[A-Za-z0-9_]+(\[\d+l?\])?", lhs):
            continue
        fn = st.get("sourceLocation", {}).get("function")
        if fn not in (entry, None) and not st.get("hidden", False):
            # inputs are harness locals or globals; ignore same-named callee locals
            if fn is not None and fn != entry and not lhs.startswith("in_g_"):
                continue
        v = st.get("value", {})
        if v.get("name") in ("array", "struct", "union"):
            if v.get("name") == "array":
                for el in v.get("elements", []):
                    ins["%s[%s]" % (lhs, el.get("index"))] = value_of(el.get("value", {}))
            continue
        ins[re.sub(r"l\]$", "]", lhs)] = value_of(v)
    return ins


def write_inputs(ins, path):
    with open(path, "w") as f:
        for k, v in sorted(ins.items()):
            if isinstance(v, float):
                f.write('{ "%s", 0, %r },\n' % (k, v) if v == v and abs(v) != float("inf")
                        else '{ "%s", 0, %s },\n' % (k, "(0.0/0.0)" if v != v else ("(1.0/0.0)" if v > 0 else "(-1.0/0.0)")))
            else:
                f.write('{ "%s", %dLL, %r },\n' % (k, v if -2**63 <= v < 2**63 else v - 2**64, float(v)))


def native_replay(job, ins, outdir):
    """build the same harness natively, feed the counterexample, run it"""
    os.makedirs(outdir, exist_ok=True)
    inp = os.path.join(outdir, "inputs.h")
    write_inputs(ins, inp)
    exe = os.path.join(scratch(), "replay-%s" % hashlib.md5((job.name + str(time.time())).encode()).hexdigest()[:10])
    hpath = os.path.join(VERIF, "harness", job.harness)
    srcs = [hpath] + [src_path(s) for s in job.extra_sources]
    cmd = (["gcc", "-O0", "-g", "-w", "-fsanitize=address,undefined", "-fno-sanitize-recover=undefined", "-msse2", "-mssse3",
            "-ffunction-sections", "-fdata-sections", "-Wl,--gc-sections"]
           + include_flags() + define_flags(job, {"VH_REPLAY": 1, "VH_ENTRY": job.entry, "VH_INPUTS_FILE": '"%s"' % inp})
           + srcs + ["-o", exe, "-lm", "-lpthread"])
    rc, out, err, _, _ = sh(cmd, timeout=300)
    script = os.path.join(outdir, "replay.sh")
    with open(script, "w") as f:
        f.write("#!/bin/sh\n# native replay of the verifier's counterexample against the real code in %s\n" % REPO)
        f.write("# exit 1 + REPLAY-CHECK-FAILED / sanitizer report = violation reproduced; exit 0 = not reproduced; exit 3 = precondition not met\n")
        f.write("T=$(mktemp -d)\n")
        f.write("if [ -f %s/_build/pixman/config.h ]; then CFG=%s/_build/pixman; else CFG=%s/cfg; fi\n" % (REPO, REPO, VERIF))
        f.write(" ".join("'%s'" % c if " " in c or '"' in c else c for c in cmd).replace(exe, "$T/replay")
                .replace("-I" + os.path.join(scratch(), "cfg"), "-I$CFG") + " || exit 2\n")
        f.write("$T/replay; rc=$?; rm -rf $T; exit $rc\n")
    os.chmod(script, 0o755)
    if rc != 0:
        return {"built": False, "reproduced": False, "output": err[-1500:]}
    rc, out, err, _, to = sh([exe], timeout=120, env={"ASAN_OPTIONS": "detect_leaks=1:exitcode=1", "UBSAN_OPTIONS": "print_stacktrace=1"})
    try:
        os.unlink(exe)
    except OSError:
        pass
    txt = out + err
    evidence = any(k in txt for k in ("REPLAY-CHECK-FAILED", "ERROR: AddressSanitizer", "ERROR: LeakSanitizer", "runtime error:",
                                      "Assertion `", "Assertion '"))
    if "ReserveShadowMemoryRange failed" in txt or "failed to allocate" in txt and "shadow" in txt:
        evidence = False     # ASan could not start (caller's ulimit -v): not a reproduction
    reproduced = (rc != 0 and rc != 3) and not to and evidence and "REPLAY-ASSUME-FAILED" not in txt
    return {"built": True, "reproduced": reproduced, "rc": rc, "timed_out": to, "output": txt[-3000:]}


def triage(job, res, replay_root):
    """job failed: get traces, replay natively, write replay artefacts."""
    outdir = os.path.join(replay_root, re.sub(r"[^A-Za-z0-9_.-]", "_", job.name))
    shutil.rmtree(outdir, ignore_errors=True)
    os.makedirs(outdir)
    workdir = res["_workdir"]
    info = {"job": job.name, "failed_obligations": res["failed"], "harness": job.harness, "defines": job.defines,
            "route": job.route, "replay": None}
    if isinstance(job, PyJob):
        info["verifier_output"] = res["failed"]
        with open(os.path.join(outdir, "counterexample.json"), "w") as f:
            json.dump(info, f, indent=1, default=str)
        return outdir, False, info
    gb = os.path.join(workdir, "b.gb" if os.path.exists(os.path.join(workdir, "b.gb")) else "a.gb")
    cmd = cbmc_cmd(job, gb, trace=True)
    rc, out, err, secs, to = sh(cmd, timeout=job.timeout * TIME_SCALE * 2, mem_kb=MEM_KB, cwd=workdir, env={"TMPDIR": workdir})
    results, status, msgs = parse_cbmc(out) if not to else (None, None, [])
    ins = {}
    verifier_text = []
    if results:
        for r in results:
            if r["status"] == "FAILURE" and "VH_CANARY" not in r.get("description", ""):
                tr = r.get("trace", [])
                got = extract_inputs(tr, job.entry)
                if not ins:
                    ins = got
                fails = [s for s in tr if s.get("stepType") == "failure"]
                verifier_text.append({"property": r["property"], "description": r.get("description"),
                                      "failure_step": fails[-1] if fails else None,
                                      "inputs": got,
                                      "tail_assignments": [
                                          {"lhs": s.get("lhs"), "value": s.get("value", {}).get("data"),
                                           "function": s.get("sourceLocation", {}).get("function"),
                                           "line": s.get("sourceLocation", {}).get("line")}
                                          for s in tr if s.get("stepType") == "assignment" and not s.get("hidden")][-40:]})
    info["verifier_output"] = verifier_text
    if job.replayable and job.route == "H" and results:
        rp = native_replay(job, ins, outdir)
        info["replay"] = rp
        info["inputs"] = ins
    with open(os.path.join(outdir, "counterexample.json"), "w") as f:
        json.dump(info, f, indent=1, default=str)
    reproduced = bool(info["replay"] and info["replay"].get("reproduced"))
    return outdir, reproduced, info


# ---------------------------------------------------------------- known findings
def load_known(prop):
    path = os.path.join(VERIF, "known-findings.txt")
    out = []
    if os.path.exists(path):
        for line in open(path):
            line = line.strip()
            if not line.startswith("finding:"):
                continue
            m = re.match(r"finding:\s+property=(\S+)\s+job=(\S+)\s+obligation=(\S+)\s*(.*)", line)
            if m and m.group(1) == prop:
                out.append({"job": m.group(2), "obligation": m.group(3), "text": m.group(4)})
    return out


def obligation_key(f):
    d = f.get("description", "")
    if f["property"].split(".")[-2:-1] == ["assertion"] and d:
        return re.sub(r"\s+", "_", d.strip())[:80]
    return f["property"]


# ---------------------------------------------------------------- check a property
def check_property(prop, jobs, tier, meta):
    """meta: dict(level, trusted_base[], assumptions[], explanation, functions_not_covered[] ...)"""
    t0 = time.time()
    seed = int(os.environ.get("VERIF_SEED", "0") or 0)
    if seed:
        import random
        random.Random(seed).shuffle(jobs)
    # heavy jobs first
    jobs.sort(key=lambda j: -j.timeout)
    replay_root = os.path.join(os.environ.get("VERIF_REPLAY_DIR") or os.path.join(VERIF, "replay"), prop)
    known = load_known(prop)
    results = {}
    with ThreadPoolExecutor(max_workers=NPROC) as ex:
        futs = {ex.submit(run_job, j): j for j in jobs}
        for fu in as_completed(futs):
            j = futs[fu]
            r = fu.result()
            results[j.name] = r
            tag = {"pass": "ok  ", "fail": "FAIL", "undecided": "UNDECIDED"}[r["status"]]
            print("[%s] %-9s %-60s %4d/%-4d obligations %7.1fs %s" % (prop, tag, j.name, r["discharged"], r["obligations"],
                                                                      r["secs"], r["reason"][:200]), flush=True)
    violations, known_hits, undecided = [], [], []
    for j in jobs:
        r = results[j.name]
        if r["status"] == "undecided":
            undecided.append(r)
        elif r["status"] == "fail":
            unknown = []
            for f in r["failed"]:
                key = obligation_key(f)
                import fnmatch
                hit = [k for k in known if k["job"] == j.name and (k["obligation"] == key or k["obligation"] == f["property"]
                                                                  or ("*" in k["obligation"] and fnmatch.fnmatchcase(key, k["obligation"])))]
                if hit:
                    known_hits.append((j, f, hit[0]))
                else:
                    unknown.append(f)
            if unknown:
                r["failed_unlisted"] = unknown
                violations.append((j, r))
            else:
                r["status"] = "known-finding"
    rc = 0
    vio_lines = []
    for j, f, k in known_hits:
        print("KNOWN-FINDING: property=%s job=%s obligation=%s %s" % (prop, j.name, k["obligation"], k["text"]))
    for j, r in violations:
        outdir, reproduced, info = triage(j, r, replay_root)
        path = os.path.join(outdir, "counterexample.json")
        names = ",".join(obligation_key(f) for f in r["failed_unlisted"][:3])
        if reproduced:
            line = "VIOLATION property=%s replay=%s" % (prop, path)
        else:
            line = "VIOLATION property=%s replay=%s no-failing-input-found" % (prop, path)
        print("  failed obligation(s) in job %s: %s" % (j.name, names))
        if info.get("replay"):
            print("  native replay: built=%s reproduced=%s" % (info["replay"].get("built"), info["replay"].get("reproduced")))
        print(line, flush=True)
        vio_lines.append(line)
        rc = 1
    if rc == 0 and undecided:
        rc = 2
        for r in undecided:
            print("UNDECIDED property=%s job=%s reason=%s" % (prop, r["job"], r["reason"][:300]))
    # ------------------------------------------------------------ evidence
    proof = [r for r in results.values() if r["kind"] == "proof"]
    bounded = [r for r in results.values() if r["kind"] != "proof"]
    n_known = len(known_hits)
    obligations = sum(r["obligations"] for r in proof) - sum(1 for j, f, k in known_hits if j.kind == "proof")
    discharged = sum(r["discharged"] for r in proof)
    funcs = sorted({f for r in proof for f in r["functions"]})
    bfuncs = sorted({f for r in bounded for f in r["functions"]} - set(funcs))
    samples = []
    for r in list(proof)[:6] + list(bounded)[:2]:
        samples.append({"job": r["job"], "kind": r["kind"], "domain": r["domain"], "obligations": r.get("sample_obligations", []),
                        "defines": r["defines"]})
    solver_time = round(sum(r.get("solver_secs", 0) for r in results.values()), 1)
    # mechanical scan of the harness texts used in this run for every assume (precondition / pruning) and
    # __CPROVER_requires: nothing is assumed that is not listed here
    scan = []
    seen_files = set()
    for j in jobs:
        if j.harness.startswith("("):
            continue
        hp = os.path.join(VERIF, "harness", j.harness)
        files = [hp]
        try:
            for inc in re.findall(r'#include "([^"]+)"', open(hp).read()):
                for d in (os.path.dirname(hp), os.path.join(VERIF, "harness", "common"), os.path.join(VERIF, "models")):
                    if os.path.exists(os.path.join(d, inc)):
                        files.append(os.path.join(d, inc))
        except OSError:
            pass
        for fp in files:
            if fp in seen_files:
                continue
            seen_files.add(fp)
            try:
                for ln, line in enumerate(open(fp), 1):
                    if re.search(r"\b(VH_ASSUME|__CPROVER_assume|__CPROVER_requires)\s*\(", line) and not line.lstrip().startswith(("*", "/*", "//", "#define")):
                        scan.append("%s:%d: %s" % (os.path.relpath(fp, VERIF), ln, line.strip()[:160]))
            except OSError:
                pass
    ev = {
        "property_id": prop, "tier": tier, "seed": seed, "level": meta.get("level", "proof"),
        "coverage": {
            "obligations": max(obligations, 0), "discharged": discharged,
            "checker_cmd": "goto-cc <harness including /repo/pixman/*.c> ; goto-instrument --dfcc <entry> --enforce-contract f/ct_f --loop-contracts-file <generated> --apply-loop-contracts ; cbmc --json-ui (--sat-solver cadical | --external-sat-solver kissat)",
            "trusted_base": meta.get("trusted_base", []) + [
                "CBMC 6.11.0 C semantics (x86-64 LP64), goto-instrument dfcc instrumentation, cadical/kissat",
                "CBMC library models of memcpy/memset/memmove/malloc/free",
                "config.h from " + cfg_origin()],
            "samples": samples,
            "functions_under_contract": funcs,
            "functions_bounded_only": bfuncs,
            "bounded": [{"job": r["job"], "functions": r["functions"], "bound": r["bound"], "result": r["status"],
                         "obligations": r["obligations"], "discharged": r["discharged"]} for r in bounded],
            "jobs": [{k: v for k, v in r.items() if not k.startswith("_") and k not in ("sample_obligations",)}
                     for r in results.values()],
            "solver_seconds_total": solver_time,
            "assume_scan": {"count": len(scan), "lines": scan[:80]},
            "undecided_jobs": [r["job"] for r in undecided],
            "known_findings_hit": [{"job": j.name, "obligation": k["obligation"], "text": k["text"]} for j, f, k in known_hits],
            "explanation": meta.get("explanation", ""),
            "not_covered": meta.get("not_covered", []),
        },
        "assumptions": sorted(set(meta.get("assumptions", []) + [a for r in results.values() for a in r.get("assumptions", [])])),
        "wall_s": round(time.time() - t0, 1),
        "violations": len(violations),
    }
    if ev["level"] == "other" and not ev["coverage"]["explanation"]:
        ev["coverage"]["explanation"] = "see DESIGN.md"
    evdir = os.environ.get("VERIF_EVIDENCE_DIR") or os.path.join(VERIF, "evidence")
    os.makedirs(evdir, exist_ok=True)
    with open(os.path.join(evdir, prop + ".json"), "w") as f:
        json.dump(ev, f, indent=1, default=str)
    print("[%s] tier=%s jobs=%d proof-obligations=%d discharged=%d bounded-jobs=%d undecided=%d violations=%d wall=%.0fs"
          % (prop, tier, len(jobs), ev["coverage"]["obligations"], discharged, len(bounded), len(undecided),
             len(violations), time.time() - t0), flush=True)
    return rc
