"""C16 static fact: every object with static storage duration that is not thread-local and not const,
over all x86 library translation units, together with the functions that assign it (directly, or whose
address is taken).  Source of truth: the goto symbol table and goto functions produced by goto-cc from the
current tree — not a grep."""
import os, re, glob, subprocess, tempfile, shutil

TU_EXTRA = ["pixman-sse2.c", "pixman-ssse3.c", "pixman-mmx.c"]


def library_tus(repo):
    txt = open(os.path.join(repo, "pixman", "meson.build")).read()
    m = re.search(r"pixman_files = files\((.*?)\)", txt, re.S)
    tus = re.findall(r"'([^']+\.c)'", m.group(1))
    return tus + TU_EXTRA


def scan(repo, incflags, workdir):
    """returns (objects: {name: {tu, type, flags}}, writers: {name: set(functions)}, addr_taken: {name:set(functions)}, errors)"""
    objects, writers, addr, errors = {}, {}, {}, []
    for tu in library_tus(repo):
        src = os.path.join(repo, "pixman", tu)
        if not os.path.exists(src):
            errors.append("missing TU " + tu)
            continue
        gb = os.path.join(workdir, tu + ".gb")
        flags = []
        if "sse2" in tu: flags = ["-msse2"]
        if "ssse3" in tu: flags = ["-mssse3"]
        if "mmx" in tu: flags = ["-mmmx"]
        r = subprocess.run(["goto-cc", "-DHAVE_CONFIG_H"] + incflags + flags + ["-c", src, "-o", gb], capture_output=True, text=True)
        if r.returncode != 0 or not os.path.exists(gb):
            errors.append("goto-cc failed on %s: %s" % (tu, r.stderr[-300:]))
            continue
        st = subprocess.run(["goto-instrument", "--show-symbol-table", gb], capture_output=True, text=True).stdout
        local = {}
        for blk in st.split("\n\n"):
            f = dict(re.findall(r"^([A-Za-z ]+?)\.*: ?(.*)$", blk, re.M))
            name, flg, typ = f.get("Symbol"), f.get("Flags", ""), f.get("Type", "")
            loc = f.get("Location", "")
            if not name or "static_lifetime" not in flg.split():
                continue
            if "thread_local" in flg.split() or name.startswith("__CPROVER") or "pixman" not in loc and "/repo" not in loc and repo not in loc:
                continue
            if repo not in loc:
                continue  # system headers
            if typ.startswith("const ") or " const" in typ.split("[")[0] or "type" in flg.split() or "(" in typ and "*" not in typ.split("(")[0] and typ.endswith(")") is False and False:
                continue
            if "macro" in flg.split() or "type" in flg.split():
                continue
            # functions have code types "(...)" ; keep only lvalues
            if "lvalue" not in flg.split():
                continue
            key = name if "file_local" not in flg.split() and "::" not in name else "%s@%s" % (name, tu)
            local[name] = key
            objects[key] = {"tu": tu, "type": typ, "flags": flg}
        gf = subprocess.run(["goto-instrument", "--show-goto-functions", gb], capture_output=True, text=True).stdout
        cur = None
        for line in gf.splitlines():
            m = re.match(r"^(\S+) /\* (\S+) \*/$", line)
            if m:
                cur = m.group(2)
                continue
            if cur is None:
                continue
            s = line.strip()
            ma = re.match(r"(?:\d+: )?(?:ASSIGN|CALL) (.+?) := (.*)$", s)
            if ma:
                lhs, rhs = ma.group(1), ma.group(2)
                for name, key in local.items():
                    pat = r"(?<![A-Za-z0-9_:$])" + re.escape(name) + r"(?![A-Za-z0-9_:$])"
                    if re.search(pat, lhs) and not re.search(r"\*\s*" + re.escape(name), lhs) and cur != "__CPROVER_initialize":
                        # direct write to the object (or a member/element of it)
                        if not re.match(r"^\s*\*", lhs) or re.search(pat, lhs.split("[")[0]):
                            writers.setdefault(key, set()).add(cur)
                    if re.search(r"&\s*\(?" + pat[:-0], rhs) or re.search(r"address_of\(" + re.escape(name), rhs):
                        addr.setdefault(key, set()).add(cur)
            else:
                for name, key in local.items():
                    if ("&" + name) in s.replace(" ", "") and cur != "__CPROVER_initialize":
                        addr.setdefault(key, set()).add(cur)
    return objects, writers, addr, errors


if __name__ == "__main__":
    import sys, json
    repo = sys.argv[1] if len(sys.argv) > 1 else "/repo"
    w = tempfile.mkdtemp()
    cfg = os.path.join(repo, "_build", "pixman")
    if not os.path.exists(os.path.join(cfg, "config.h")):
        cfg = "/verif/cfg"
    o, wr, ad, er = scan(repo, ["-I" + cfg, "-I" + os.path.join(repo, "pixman")], w)
    shutil.rmtree(w)
    for k in sorted(o):
        print(k, "|", o[k]["type"][:50], "| writers:", sorted(wr.get(k, [])), "| addr:", sorted(ad.get(k, [])))
    print("errors:", er)
