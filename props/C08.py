"""C08 — transformed sources are sampled at the documented position, filter and repeat.

Decomposition (DESIGN.md §5 C08; spec/spec_sample.h is written from rounding.txt and the property text):
  repeat.*     repeat() NONE/NORMAL/PAD/REFLECT and MOD            (pixman-inlines.h, pixman-private.h)
  bilin.*      pixman_fixed_to_bilinear_weight, bilinear_interpolation (64-bit variant, 7-bit weights)
  nearest.* bilinear.* conv.* sepconv.*   bits_image_fetch_pixel_* with a recording get_pixel
  affine.* general.*   __bits_image_fetch_affine_no_alpha stepping, __bits_image_fetch_general quotient
  padbounds.*  pad_repeat_get_scanline_bounds
  fastpath.*   specialised fetchers of pixman-fast-path.c: bits_image_fetch_{nearest,bilinear,separable_convolution}_affine through their
               48 generated instances as _pixman_implementation_iter_init selects them from fast_iters[] (formats by spec_format.h),
               r5g6b5 fetch / write-back iterators, bilinear cover iterator (harness fp_affine.c, fp_565.c, fp_cover.c)
  conv.onehot.* convolution kernels up to 3x3 (4x4 thorough) with one-hot weights: window, tap order, matrix stride
Jobs whose name starts with `finding.` hold obligations that FAIL on the pinned tree (own job each)."""
import os
from vdriver import Job, ext_jobs, ext_meta

ARITH = ["--signed-overflow-check", "--div-by-zero-check", "--conversion-check"]
SAFE = ["--signed-overflow-check", "--div-by-zero-check", "--bounds-check", "--pointer-check"]

A_REFLECT = ("repeat(REFLECT)/MOD: size <= 2^30-1 (2*size is an int) and c > INT32_MIN (-c is an int); call sites pass the integer part of a 16.16 "
             "coordinate +- a kernel width and an image dimension")


def normal_loops(cong):
    c1 = " && ((long long) __CPROVER_loop_entry(*c) - (long long) *c) % (long long) size == 0" if cong else ""
    l1 = {"assigns": "*c", "decreases": "*c",
          "invariants": "*c <= __CPROVER_loop_entry(*c) && (__CPROVER_loop_entry(*c) >= 0 ==> *c >= 0) && "
                        "(__CPROVER_loop_entry(*c) < size ==> *c == __CPROVER_loop_entry(*c))" + c1,
          "vars": ["c", "size"], "headers": []}
    l2 = {"assigns": "*c", "decreases": "-(long long) *c",
          "invariants": "*c >= __CPROVER_loop_entry(*c) && (__CPROVER_loop_entry(*c) < 0 ==> *c < size) && "
                        "(__CPROVER_loop_entry(*c) >= 0 ==> *c == __CPROVER_loop_entry(*c))" + c1,
          "vars": ["c", "size"], "headers": []}
    return {"repeat": [l1, l2]}


REPN = {0: "none", 1: "normal", 2: "pad", 3: "reflect"}
A_POS = "sample position together with the filter's offset (e, 1/2, (w-1)/2 + e, phase rounding) stays inside int32 16.16 (property: 'sample positions stay in the 16.16 range')"
A_SIZE = "image width/height in [1, 2^26-1] (an a8r8g8b8 image pixman_image_create_bits can allocate)"
A_REPMODEL = ("fetcher queries with NORMAL/REFLECT: repeat() is abstracted as an uninterpreted function with range [0,size) applied by code and spec alike "
              "(what is decided is the ARGUMENT handed to repeat); repeat() itself is checked by the repeat.* jobs")
A_BLEND = ("bits_image_fetch_pixel_bilinear_32 queries: bilinear_interpolation() is abstracted as an uninterpreted function of its six arguments "
           "(decided: the four neighbours and two weights handed to it); the function itself is checked by the bilin.* jobs")
A_COEF = "convolution: |coefficient| <= 4.0 (2^18), at most 3x3 taps, so the signed 16.16 total of a channel fits 32 bits"
A_SEPCOEF = "separable convolution: |x/y vector entry| <= 2.0 (2^17) so the 16.16 product fits int32 and the total fits 32 bits"
A_NONNEG = ("convolution jobs other than finding.*: the channel's signed total rounds to >= 0 (total + 0.5 >= 0); "
            "the complement is the job finding.conv.negative_total")
A_SHIFT = ("sepconv.* jobs run with --no-undefined-shift-check: '(x >> s) << s' with negative x is evaluated as the arithmetic shift every supported "
           "compiler implements; the UB itself is the job finding.sepconv.negative_shift")
A_KPARAM = "convolution: params[0], params[1] are whole numbers (w << 16, h << 16), as pixman_filter_create_separable_convolution and the tests build them"


def rep_defs(rep):
    return {"VC_REP": rep, "VC_REPMODEL": 1 if rep in (1, 3) else 0}


def fetch_jobs(tier):
    th = tier != "quick"
    js = []
    for rep in (0, 1, 2, 3):
        asm = [A_POS, A_SIZE] + ([A_REPMODEL] if rep in (1, 3) else [])
        d = dict(rep_defs(rep), VC_FILTER=0, VC_NG=1)
        js.append(Job("nearest.%s" % REPN[rep], "C08/fetch.c", defines=d, cbmc_flags=SAFE, unwind=2, kind="proof",
                      functions=["bits_image_fetch_pixel_nearest", "fetch_pixel_no_alpha_32"],
                      domain="every 16.16 (x,y) > INT32_MIN, every image size, ghost image (1 free point + default)", timeout=400, min_props=3,
                      assumptions=asm))
        d = dict(rep_defs(rep), VC_FILTER=1, VC_NG=4, VC_BLENDMODEL=1)
        js.append(Job("bilinear.%s" % REPN[rep], "C08/fetch.c", defines=d, cbmc_flags=SAFE, unwind=5, kind="proof",
                      functions=["bits_image_fetch_pixel_bilinear_32", "fetch_pixel_no_alpha_32", "pixman_fixed_to_bilinear_weight"],
                      domain="every 16.16 (x,y) >= INT32_MIN + 1/2, every image size, ghost image (4 free points + default)", timeout=600,
                      min_props=3, assumptions=asm + [A_BLEND]))
    # convolution: kernel sizes unrolled (bounded in kernel size), one channel per query
    # 2x2 and larger: the SAT query did not finish within 17 min on the (heavily loaded) build machine; they are generated only on
    # request (VERIF_C08_BIGKERNEL=1) so that a timeout cannot turn the check "undecided"
    big = os.environ.get("VERIF_C08_BIGKERNEL") == "1"
    kernels = [(1, 1)] + ([(2, 1), (1, 2), (2, 2), (3, 3)] if big else [])
    for (cw, cht) in kernels:
        for rep in (0, 1, 2, 3):
            for ch in (0, 1, 2, 3):
                if not th and not ((cw, cht, rep, ch) in ((1, 1, 0, 3), (1, 1, 2, 0), (1, 1, 1, 1))):
                    continue
                d = dict(rep_defs(rep), VC_FILTER=2, VC_NG=max(cw, cht), VC_CW=cw, VC_CHT=cht, VC_CH=ch, VC_NONNEG=1)
                js.append(Job("conv.%dx%d.%s.ch%d" % (cw, cht, REPN[rep], ch), "C08/fetch.c", defines=d, cbmc_flags=SAFE, unwind=max(cw, cht) + 1,
                              kind="bounded", bound="kernel %dx%d (tap loops fully unrolled)" % (cw, cht),
                              functions=["bits_image_fetch_pixel_convolution", "accum_32", "reduce_32", "fetch_pixel_no_alpha_32"],
                              domain="every 16.16 (x,y), every image size, every coefficient in [-4,4], ghost image (%d free points + default), channel %d" % (max(cw, cht), ch),
                              timeout=1800, min_props=3,
                              assumptions=[A_POS, A_SIZE, A_COEF, A_NONNEG, A_KPARAM] + ([A_REPMODEL] if rep in (1, 3) else [])))
    # (b-sample2) kernels larger than 1x1 with ONE-HOT weights (tap symbolic, weight 1.0): window alignment, tap order and the
    # stride of the kernel matrix, no symbolic product -> 4-20 s each
    oh = [(2, 2, 2), (2, 1, 3), (1, 2, 0), (3, 3, 1)] if not th else [(cw, cht, rep) for (cw, cht) in ((2, 1), (1, 2), (2, 2), (3, 2), (3, 3), (4, 4))
                                                                        for rep in (0, 1, 2, 3)]
    for (cw, cht, rep) in oh:
        d = dict(rep_defs(rep), VC_FILTER=2, VC_ONEHOT=1, VC_NG=1, VC_CW=cw, VC_CHT=cht)
        js.append(Job("conv.onehot.%dx%d.%s" % (cw, cht, REPN[rep]), "C08/fetch.c", defines=d, cbmc_flags=SAFE, unwind=max(cw, cht) + 1,
                      kind="bounded", bound="kernel %dx%d (tap loops fully unrolled), one-hot weights" % (cw, cht),
                      functions=["bits_image_fetch_pixel_convolution", "accum_32", "reduce_32", "fetch_pixel_no_alpha_32"],
                      domain="every 16.16 (x,y), every image size, every tap position, ghost image (1 free point + default), all four channels",
                      timeout=900, min_props=3,
                      assumptions=[A_POS, A_SIZE, A_KPARAM] + ([A_REPMODEL] if rep in (1, 3) else [])))
    seps = [(1, 1, 0, 0)] + ([(1, 1, 1, 1)] if th else []) + ([(2, 2, 1, 1), (3, 3, 1, 0)] if big else [])
    for (cw, cht, xb, yb) in seps:
        for rep in (0, 1, 2, 3):
            for ch in (0, 1, 2, 3):
                if not th and not ((cw, rep, ch) in ((1, 3, 0),)):
                    continue
                if th and not big and ((xb == 0 and ch in (1, 2)) or (xb == 1 and (rep, ch) not in ((0, 1), (3, 2)))):   # 2-7 min each: a subset
                    continue
                d = dict(rep_defs(rep), VC_FILTER=3, VC_NG=max(cw, cht), VC_CW=cw, VC_CHT=cht, VC_XB=xb, VC_YB=yb, VC_CH=ch, VC_NONNEG=1)
                js.append(Job("sepconv.%dx%d.p%d%d.%s.ch%d" % (cw, cht, xb, yb, REPN[rep], ch), "C08/fetch.c", defines=d,
                              cbmc_flags=SAFE + ["--no-undefined-shift-check"],
                              unwind=max(cw, cht, 1 << xb, 1 << yb) + 1, kind="bounded",
                              bound="kernel %dx%d, %d x %d phases (tap loops fully unrolled)" % (cw, cht, 1 << xb, 1 << yb),
                              functions=["bits_image_fetch_pixel_separable_convolution", "accum_32", "reduce_32", "fetch_pixel_no_alpha_32"],
                              domain="every 16.16 (x,y), every image size, every vector entry in [-2,2], ghost image, channel %d" % ch,
                              timeout=3000, min_props=3,
                              assumptions=[A_POS, A_SIZE, A_SEPCOEF, A_NONNEG, A_KPARAM, A_SHIFT] + ([A_REPMODEL] if rep in (1, 3) else [])))
    # (x >> s) << s with x < 0: left shift of a negative value (UB before C23; UBSan: shift-base) — own job, default checks on
    js.append(Job("finding.sepconv.negative_shift", "C08/fetch.c",
                  defines=dict(rep_defs(2), VC_FILTER=3, VC_NG=1, VC_CW=1, VC_CHT=1, VC_XB=0, VC_YB=0, VC_CH=3, VC_NONNEG=1, VC_NOCHECK=1),
                  cbmc_flags=SAFE, unwind=2, kind="bounded", bound="kernel 1x1, 1 phase",
                  functions=["bits_image_fetch_pixel_separable_convolution"], domain="every 16.16 (x,y) incl. negative ones", timeout=1800,
                  min_props=3, assumptions=[A_POS, A_SIZE, A_SEPCOEF, A_KPARAM]))
    # KNOWN DEFECT (DESIGN.md §7): unsigned totals — same text without the "total rounds to >= 0" precondition
    js.append(Job("finding.conv.negative_total", "C08/fetch.c",
                  defines=dict(rep_defs(2), VC_FILTER=2, VC_NG=1, VC_CW=1, VC_CHT=1, VC_CH=1, VC_NONNEG=0), cbmc_flags=SAFE, unwind=2,
                  kind="bounded", bound="kernel 1x1",
                  functions=["bits_image_fetch_pixel_convolution", "accum_32", "reduce_32"],
                  domain="1x1 kernel, every coefficient in [-4,4] incl. negative ones, PAD repeat, green channel", timeout=1200, min_props=3,
                  assumptions=[A_POS, A_SIZE, A_COEF, A_KPARAM]))
    return js


A_STEP = ("iterators: every position v + i*u for i = 0..width (the code steps once past the last pixel: x += ux there would be a signed overflow "
          "otherwise) is an int32 16.16 number > INT32_MIN, and so is the projected position")
A_T3D = ("pixman_transform_point_3d replaced by a model: returns a harness-chosen vector/verdict and checks its argument is the pixel centre "
         "(the transform itself is property C11)")
A_ITER = "iterators: filter NEAREST, no alpha map, iter->x, iter->y in int16"


def iter_jobs(tier):
    th = tier != "quick"
    js = []
    for rep in ((0, 2, 3) if not th else (0, 1, 2, 3)):
        wmax = 4 if th else 3
        js.append(Job("affine.step.%s" % REPN[rep], "C08/iter.c", defines=dict(rep_defs(rep), VC_ITER=0, VC_NG=1, VC_WMAX=wmax), cbmc_flags=SAFE,
                      unwind=wmax + 2, kind="bounded", bound="width <= %d (pixel loop unwound)" % wmax,
                      functions=["__bits_image_fetch_affine_no_alpha", "bits_image_fetch_pixel_filtered", "bits_image_fetch_pixel_nearest"],
                      domain="every v, (ux,uy), with/without transform, with/without mask, ghost index, ghost image", timeout=1800, min_props=6,
                      assumptions=[A_STEP, A_T3D, A_ITER, A_SIZE] + ([A_REPMODEL] if rep in (1, 3) else [])))
    xb, wb, wmax = (14, 6, 2) if th else (12, 4, 1)
    js.append(Job("general.quotient.nonneg", "C08/iter.c",
                  defines=dict(rep_defs(2), VC_ITER=1, VC_SIGNED=0, VC_XBITS=xb, VC_WBITS=wb, VC_NG=1, VC_WMAX=wmax), cbmc_flags=SAFE,
                  unwind=wmax + 2, kind="bounded",
                  bound="homogeneous x, y, ux, uy in [0, 2^%d), w, uw in [0, 2^%d) (w >= 1), width <= %d: the 64-bit division at full width does not finish" % (xb, wb, wmax),
                  functions=["__bits_image_fetch_general", "bits_image_fetch_pixel_filtered", "bits_image_fetch_pixel_nearest", "fetch_pixel_general_32"],
                  domain="non-negative homogeneous coordinates, PAD repeat, with/without transform and mask, ghost index", timeout=2400, min_props=6,
                  assumptions=[A_STEP, A_T3D, A_ITER, A_SIZE,
                               "general.quotient.nonneg: x, y >= 0 and w > 0 (the complement x < 0 or y < 0 is the job finding.general.negative_coordinate)"]))
    # was the KNOWN DEFECT of DESIGN.md §7 (unsigned division of a negative coordinate), repaired by fix: 5d5e53b.  With the
    # defect the query was a quick SAT instance at 20/8 bits; as a proof it needs the reduced operand widths of the nonneg job.
    js.append(Job("finding.general.negative_coordinate", "C08/iter.c",
                  defines=dict(rep_defs(2), VC_ITER=1, VC_SIGNED=1, VC_XBITS=xb, VC_WBITS=wb, VC_NG=1, VC_WMAX=1), cbmc_flags=SAFE, unwind=3,
                  kind="bounded", bound="|x|, |y| < 2^%d, 1 <= w < 2^%d, width <= 1" % (xb, wb),
                  functions=["__bits_image_fetch_general"],
                  domain="homogeneous x, y of either sign, w > 0, PAD repeat", timeout=2400, min_props=6,
                  assumptions=[A_STEP, A_T3D, A_ITER, A_SIZE]))
    return js


def bilin_jobs(tier):
    th = tier != "quick"
    js = [Job("bilin.weight", "C08/bilin.c", defines={"VC_CASE": 0}, cbmc_flags=ARITH, kind="proof",
              functions=["pixman_fixed_to_bilinear_weight"], domain="every 16.16 value; BILINEAR_INTERPOLATION_BITS == 7", timeout=120, min_props=4)]
    grid = (0, 1, 37, 64, 90, 127) if th else (0, 1, 64, 127)
    for ch in (0, 1, 2, 3):
        for wx in grid:
            for wy in grid:
                if not th and (wx + wy + ch) % 2:     # quick: half of the 4x4 grid per channel
                    continue
                js.append(Job("bilin.interp.ch%d.w%d_%d" % (ch, wx, wy), "C08/bilin.c", defines={"VC_CASE": 1, "VC_CH": ch, "VC_WX": wx, "VC_WY": wy},
                              cbmc_flags=ARITH, kind="bounded", bound="weight pair fixed to (%d,%d) of the 128x128 pairs" % (wx, wy),
                              functions=["bilinear_interpolation"], domain="every tl,tr,bl,br in 2^128, channel %d" % ch, timeout=300, min_props=1))
    return js


# ---------------------------------------------------------------- (b-sample2) specialised fetchers of pixman-fast-path.c
A_FP_T3D = ("fastpath.*: pixman_transform_point_3d replaced by a model: returns a harness-chosen vector/verdict and records whether its argument "
            "is the centre of the first pixel (the transform itself is property C11)")
A_FP_RANGE = ("fastpath.*: every sample position of the scanline within +-10 pixels of a 4x3 source (the NORMAL-repeat while loops of repeat() stay "
              "inside the unwinding bound; repeat() for every c and size is the subject of the repeat.* jobs)")
A_FP_BLEND = ("fastpath.bilinear.*: bilinear_interpolation() is abstracted as an uninterpreted function of its six arguments with blend(0,0,0,0,.,.) == 0 "
              "(decided: the four neighbours and two weights handed to it); the function itself: bilin.* jobs, the zero lemma: fastpath.bilinear.zero_blend")
A_FP_SHIFT = ("fastpath.sepconv.*: --no-undefined-shift-check: (vx >> s) << s with negative vx is a left shift of a negative value (same pattern as the "
              "known finding C08 finding.sepconv.negative_shift in pixman-bits-image.c)")
A_FP_FLAGS = ("fastpath.*.table.*: the image flags handed to _pixman_implementation_iter_init are those of a BITS image without alpha map and accessors "
              "under a general affine transform (no ID/SCALE/ROTATE/X_UNIT_POSITIVE/Y_UNIT_ZERO/COVER_CLIP bit), filter and repeat bits as in the job name")
A_FP_PAD = ("fastpath.bilinear.*.none_*: the image storage is preceded by one word of the same allocation (the worker forms row + bpp/8 * (-1) "
            "before reading pixel [1]; with the image at the very start of an object that pointer is outside the object for CBMC: "
            "job finding.fastpath.bilinear.none.row_pointer_before_allocation)")
FP_KIND = {0: "nearest", 1: "bilinear", 2: "sepconv"}
FP_FN = {0: "bits_image_fetch_nearest_affine", 1: "bits_image_fetch_bilinear_affine", 2: "bits_image_fetch_separable_convolution_affine"}
FP_FMTS = ("a8r8g8b8", "x8r8g8b8", "a8", "r5g6b5")
FP_CALL = {0: "worker", 1: "instance", 2: "table"}
# weight pairs of the cover-iterator jobs: only weights 0 and 64 (products by 0 / by a power of two) finish; (37,90), (127,1) ran past 400 s
FP_COVER_W = ((0, 0), (0, 64), (64, 0), (64, 64))


def fp_affine_job(kind, rep, fmt, call, w=None, cw=2, cht=1, timeout=None, pad=None, name=None, extra=None):
    # sepconv: the symbolic 16.16 products make the SAT query ~40x dearer than nearest/bilinear: width 1 there
    w = w if w is not None else (1 if kind == 2 else 2)
    d = {"VC_KIND": kind, "VC_REP": rep, "VC_FMT": fmt, "VC_CALL": call, "VC_W": w}
    flags = []
    asm = [A_FP_T3D, A_FP_RANGE]
    name = name or "fastpath.%s.%s.%s_%s" % (FP_KIND[kind], FP_CALL[call], REPN[rep], fmt)
    fns = [FP_FN[kind], FP_FN[kind] + "_%s_%s" % (REPN[rep], fmt), "convert_" + fmt, "repeat"]
    bound = "4x3 source, scanline width %d, positions within +-10 pixels" % w
    if kind == 1:
        d["VC_BLENDMODEL"] = 1
        asm.append(A_FP_BLEND)
        if rep == 0:
            d["VC_PAD"] = 1 if pad is None else pad
            if d["VC_PAD"]:
                asm.append(A_FP_PAD)
    if kind == 2:
        d["VC_CW"], d["VC_CHT"] = cw, cht
        flags.append("--no-undefined-shift-check")
        asm.append(A_FP_SHIFT)
        name += ".k%dx%d" % (cw, cht)
        bound += "; kernel %dx%d, 0 subsample bits, one-hot weights" % (cw, cht)
    d.update(extra or {})
    if call == 2:
        flags += ["--unwindset", "_pixman_implementation_iter_init.0:64,_pixman_implementation_iter_init.1:64,memcmp.0:72"]
        asm.append(A_FP_FLAGS)
        fns += ["fast_iters[]", "_pixman_implementation_iter_init"]
    return Job(name, "C08/fp_affine.c", defines=d, unwind=8, cbmc_flags=flags, object_bits=10,
               extra_sources=["harness/C19/replay_link.c"], kind="bounded", bound=bound, functions=fns,
               domain="every stored bit of the source, every v and (ux,uy) in range, with/without mask, transform verdict, ghost pixel index",
               timeout=timeout or (2400 if kind == 2 else 900), min_props=6, assumptions=asm)


def fastpath_jobs(tier):
    th = tier != "quick"
    js = [Job("fastpath.bilinear.zero_blend", "C08/fp_affine.c", defines={"VC_KIND": 9}, cbmc_flags=ARITH, kind="proof",
              extra_sources=["harness/C19/replay_link.c"],
              functions=["bilinear_interpolation"], domain="every 7-bit weight pair, four transparent pixels", timeout=300, min_props=1)]
    combos = []
    if th:
        for kind in (0, 1, 2):
            for rep in (0, 1, 2, 3):
                for fi, fmt in enumerate(FP_FMTS):
                    # sepconv: 1.5-4 min of solver time each: a checkerboard of 8 of the 16 instances (every repeat mode and every
                    # format twice) unless VERIF_C08_ALLSEPCONV=1
                    if kind == 2 and (rep + fi) % 2 and os.environ.get("VERIF_C08_ALLSEPCONV") != "1":
                        continue
                    combos.append((kind, rep, fmt, 2))
                    if kind != 2:       # (sepconv: 1.5-4 min of solver time each; the table route runs the instance anyway)
                        combos.append((kind, rep, fmt, 1))
    else:
        # quick: every filter, every repeat mode and every format at least once through the table; two instances directly
        combos = [(0, 0, "r5g6b5", 2), (0, 1, "a8", 2), (0, 2, "x8r8g8b8", 2), (0, 3, "a8r8g8b8", 2),
                  (1, 0, "x8r8g8b8", 2), (1, 1, "a8r8g8b8", 2), (1, 2, "a8", 2), (1, 3, "r5g6b5", 2),
                  (2, 0, "a8", 2),          # (sepconv: ~90 s of solver time for NONE/a8, ~200 s for REFLECT/r5g6b5: the cheap one here)
                  (0, 2, "r5g6b5", 1), (1, 0, "a8r8g8b8", 1)]
    for kind, rep, fmt, call in combos:
        js.append(fp_affine_job(kind, rep, fmt, call))
    # r5g6b5 scanline iterators (fast_iters[] entries 0..2): fetch and write back against the field table of the format name
    for case, nm, fn in ((0, "fetch", "fast_fetch_r5g6b5"), (1, "write_back", "fast_write_back_r5g6b5")):
        js.append(Job("fastpath.r5g6b5.%s" % nm, "C08/fp_565.c", defines={"VC_CASE": case, "VC_WMAX": 7}, unwind=12,
                      extra_sources=["harness/C19/replay_link.c"], kind="bounded",
                      bound="scanline width <= 7 (the 2- and 4-pixel loops unwound), two lines of 10 pixels",
                      functions=[fn, "convert_0565_to_8888", "convert_8888_to_0565_workaround"],
                      domain="every stored bit / every buffer word, every width 0..7, 4-byte aligned and unaligned start, either line, ghost pixel",
                      timeout=600, min_props=4))
    # bilinear "cover" iterator (fast_bilinear_cover_iter_init / fast_fetch_bilinear_cover): obtained through fast_iters[];
    # precondition = meaning of SAMPLES_COVER_CLIP_BILINEAR.  One channel and one weight pair (of the first sample) per query.
    cov = [(0, 64, 0), (64, 64, 3)] if not th else [(wx, wy, ch) for (wx, wy) in FP_COVER_W for ch in (0, 1, 2, 3)]
    for wx, wy, ch in cov:
        js.append(Job("fastpath.cover.w%d_%d.ch%d" % (wx, wy, ch), "C08/fp_cover.c",
                      defines={"VC_W": 1, "VC_WX": wx, "VC_WY": wy, "VC_CH": ch}, unwind=8, object_bits=10,
                      cbmc_flags=["--unwindset", "_pixman_implementation_iter_init.0:64,_pixman_implementation_iter_init.1:64,memcmp.0:72"],
                      extra_sources=["harness/C19/replay_link.c"], kind="bounded",
                      bound="4x4 source, scanline width 1, two consecutive scanlines, whole-pixel steps, weight pair of every sample fixed to (%d,%d), channel %d" % (wx, wy, ch),
                      functions=["fast_bilinear_cover_iter_init", "fast_fetch_bilinear_cover", "fetch_horizontal", "bilinear_cover_iter_fini",
                                 "fast_iters[]", "_pixman_implementation_iter_init"],
                      domain="every source content, every v with that weight pair and every scale (sx, sy) such that the four neighbours of every sample are inside the image",
                      timeout=1200, min_props=4,
                      assumptions=[A_FP_T3D, "fastpath.cover.*: precondition = FAST_PATH_SAMPLES_COVER_CLIP_BILINEAR as pixman.c analyze_extent defines it: "
                                   "floor (X - 1/2) >= 0 and floor (X + 1/2) < width for every sample (same for Y); |sx|, |sy| < 8.0",
                                   "fastpath.cover.*: image flags handed to _pixman_implementation_iter_init: a8r8g8b8 BITS image, no alpha map/accessors, "
                                   "SCALE transform, BILINEAR filter, NONE repeat, COVER_CLIP_BILINEAR"]))
    # the NONE-repeat bilinear worker offsets the row pointer by x1 == -1 pixels before reading pixel [1]: for row 0 of an image
    # that starts its allocation this is a pointer before the object (ISO C: undefined; the byte finally read is inside) — own job
    js.append(fp_affine_job(1, 0, "a8r8g8b8", 1, pad=0, extra={"VC_NOCHECK": 1},
                            name="finding.fastpath.bilinear.none.row_pointer_before_allocation"))
    return js


# extension modules merged into this property's job list (vdriver.ext_jobs / ext_meta)
EXT = [
    ("C08_scl", None),
]


def jobs(tier):
    th = tier != "quick"
    js = []
    # ---------------------------------------------------------------- (1) repeat
    js.append(Job("repeat.none", "C08/repeat.c", defines={"VC_MODE": 0}, cbmc_flags=ARITH, kind="proof", functions=["repeat"],
                  domain="every int c, every size >= 1", timeout=120, min_props=3))
    js.append(Job("repeat.pad", "C08/repeat.c", defines={"VC_MODE": 2}, cbmc_flags=ARITH, kind="proof", functions=["repeat"],
                  domain="every int c, every size >= 1", timeout=120, min_props=2))
    js.append(Job("repeat.reflect.size1_size2", "C08/repeat.c", defines={"VC_MODE": 5}, cbmc_flags=ARITH, kind="proof",
                  functions=["repeat", "MOD"], domain="size 1 and 2, every c > INT32_MIN: literal tables", timeout=120, min_props=2,
                  assumptions=[A_REFLECT]))
    js.append(Job("repeat.normal.k4", "C08/repeat.c", defines={"VC_MODE": 1, "VC_K": 4}, unwind=7, cbmc_flags=ARITH, kind="bounded",
                  bound="|c| <= 4*size (the two while loops unwound 6 times)", functions=["repeat"],
                  domain="every size >= 1, c in [-4*size, 4*size]", timeout=1200, min_props=3))
    js.append(Job("repeat.normal.range_termination", "C08/repeat_d.c", route="D", enforce="repeat", defines={"VC_CONG": 0},
                  loops=normal_loops(0), kind="proof", functions=["repeat"],
                  domain="every int c, every size >= 1 (loop contracts, no unwinding): TRUE, 0 <= r < size, both loops terminate",
                  timeout=300, min_props=10))
    for n in ((3, 7, 16) if not th else (3, 5, 7, 16, 100, 641, 65536, (1 << 30) - 1)):
        js.append(Job("repeat.reflect.size%d" % n, "C08/repeat.c", defines={"VC_MODE": 3, "VC_SIZEFIX": n, "VC_SIZEMAX": "((1<<30)-1)"},
                      cbmc_flags=ARITH, kind="bounded", bound="size fixed to %d (the query with a symbolic size does not finish)" % n,
                      functions=["repeat", "MOD"], domain="every c > INT32_MIN", timeout=900, min_props=4, assumptions=[A_REFLECT]))
        js.append(Job("repeat.mod.b%d" % (2 * n), "C08/repeat.c", defines={"VC_MODE": 4, "VC_SIZEFIX": 2 * n, "VC_SIZEMAX": "2147483647"},
                      cbmc_flags=ARITH, kind="bounded", bound="b fixed to %d" % (2 * n), functions=["MOD"], domain="every a > INT32_MIN",
                      timeout=600, min_props=2, assumptions=[A_REFLECT]))
    js += bilin_jobs(tier)
    js += iter_jobs(tier)
    js += fetch_jobs(tier)
    # (lead) the transform-class flags that select the specialised fetchers are only set for matrices of that class
    # (obligations info.*_flag_* in harness/C09/info.c, the jobs of props/C09_info.py)
    try:
        import C09_info
        for j in C09_info.jobs(tier):
            j.name = "flags." + j.name
            js.append(j)
    except ImportError:
        pass
    # (lead) the C fast-path separable-convolution fetcher against the documented tap window (one-hot kernels)
    for cw, ch in (((1, 3), (2, 3)) if tier == "quick" else ((1, 3), (2, 3), (2, 2), (3, 1))):   # 1x3: window offset per axis (seed C08-1); 2x3: even width, the lost epsilon (seed C02-3)
        js.append(Job("fastpath.sepconv.window.%dx%d" % (cw, ch), "C08/fp_sepconv.c", defines={"VC_CW": cw, "VC_CH": ch}, unwind=8,
                      extra_sources=["harness/C19/replay_link.c"],   # weak aborting bodies so that the native replay links
                      cbmc_flags=["--no-undefined-shift-check"], kind="bounded",
                      bound="kernel %dx%d, 0 subsample bits, one-hot weights; 4x4 source; scanline width 1" % (cw, ch),
                      functions=["bits_image_fetch_separable_convolution_affine"],
                      domain="every sample position within +-12 pixels, every one-hot tap, every source content (NORMAL repeat)",
                      timeout=2400, min_props=2,
                      assumptions=["fastpath.sepconv: --no-undefined-shift-check: (vx >> s) << s with negative vx is a left shift of a negative value "
                                   "(same pattern as the known finding C08 finding.sepconv.negative_shift in pixman-bits-image.c)",
                                   "fastpath.sepconv: pixman_transform_point_3d replaced by a stub returning the harness-chosen position"]))
    # (lead) pad_repeat_get_scanline_bounds: left padding / image part / right padding of a scaled NONE/PAD scanline
    for sw, w, u in (((15, 5, 12),) if tier == "quick" else ((15, 5, 12), (15, 6, 8), (15, 6, 14))):
        js.append(Job("pad_bounds.sw%d.w%d.u%d" % (sw, w, u), "C08/padbounds.c", defines={"VC_SWBITS": sw, "VC_WBITS": w, "VC_UBITS": u},
                      kind="bounded", bound="source width < 2^%d, scanline width < 2^%d, 0 < unit_x < 2^%d, every vx in int32 (the 64/32-bit "
                      "division at full operand width does not finish)" % (sw, w, u), functions=["pad_repeat_get_scanline_bounds"],
                      domain="ghost pixel i: left padding iff vx + i*unit_x < 0, right padding iff >= width*65536, parts consecutive and adding up",
                      timeout=1800, min_props=3))
    # (lead) wide pipeline: a pixel whose (4-word) mask pixel is non-zero must be fetched — found the defect repaired by the
    # fix: commit "wide fetchers: test the whole mask pixel"
    for it, fn in ((0, "bits_image_fetch_affine_no_alpha_float"), (1, "bits_image_fetch_general_float")):
        js.append(Job("wide.mask_skip.%s" % ("affine" if it == 0 else "general"), "C08/wide_mask.c", defines={"VC_ITER": it, "VC_W": 4},
                      unwind=6, kind="bounded", bound="scanline width 4 (unrolled); every mask content", functions=[fn, "__bits_image_fetch_" + ("affine_no_alpha" if it == 0 else "general")],
                      domain="float scanline fetcher of a transformed source with a wide mask: every 16-word mask, ghost pixel", timeout=600, min_props=2))
    js += fastpath_jobs(tier)
    return js + ext_jobs(tier, EXT)


META = {
    "level": "proof",
    "trusted_base": [
        "spec/spec_sample.h: sample positions, weights, kernel alignment and repeat maps as written from rounding.txt and the property text",
        "harness/C08/c08.h: ghost image (free points + default) standing for an arbitrary a8r8g8b8 image behind fetch_pixel_32",
        "uninterpreted-function abstraction (CBMC __CPROVER_uninterpreted_*) of repeat() [NORMAL/REFLECT] and bilinear_interpolation() inside the fetcher queries",
        "spec/spec_format.h (field tables of the format names, little-endian raw pixel layout) for the source pixels of the fastpath.* jobs",
        "fastpath.*.table.* / fastpath.cover.*: the image-flag words handed to _pixman_implementation_iter_init are written by hand in the harness "
        "(what compute_image_info / analyze_extent produce is C09/C14 territory)",
    ],
    "assumptions": [
        "proof level is claimed for: repeat NONE/PAD (full domain), repeat NORMAL range+termination (loop contracts), bilinear weight, "
        "nearest/bilinear fetchers (argument level); everything else is bounded as labelled per job",
        "repeat NORMAL congruence: bounded |c| <= 4*size (the route-D loop contract with the invariant (c0 - c) % size == 0 does not finish in 900 s)",
        "repeat REFLECT / MOD: one fixed size per query (symbolic remainder does not finish even for 8-bit sizes); size 1 and 2 by literal table",
        "bilinear_interpolation: fixed weight pairs of a grid (symbolic weights do not finish, even 4x4 blocks)",
        "format is a8r8g8b8 behind a ghost fetch_pixel_32 (formats: C10); only the 32-bit (non-wide) fetchers; no alpha map",
    ],
    "not_covered": [
        "macro-generated scaled nearest/bilinear main loops (FAST_NEAREST_MAINLOOP*, FAST_BILINEAR_MAINLOOP*) of pixman-inlines.h / pixman-fast-path.c",
        "SSE2 / SSSE3 scaled and affine fetchers (pixman-sse2.c, pixman-ssse3.c)",
        "pixman-fast-path.c bits_image_fetch_bilinear_no_repeat_8888 (the X_UNIT_POSITIVE / Y_UNIT_ZERO NONE-repeat bilinear scanline fetcher)",
        "pixman-fast-path.c affine fetchers: bounded to a 4x3 source, scanline width <= 2 (sepconv: 1), positions within +-10 pixels; "
        "sepconv instances only with a 2x1 one-hot kernel and 0 subsample bits (phase tables of the fast-path fetcher: fastpath.sepconv.window.* only)",
        "fast_fetch_bilinear_cover: only weight pairs over {0, 64} finish (pixel index, stepping, line cache, lane layout, memory safety under "
        "COVER_CLIP_BILINEAR; whole-pixel steps, width 1); the two-pass 64-bit-lane interpolation with general weights ((37,90), (127,1)) did not "
        "finish in 400 s even with one channel and the weights built as constants: its arithmetic is verified at half weights only",
        "8 of the 16 bits_image_fetch_separable_convolution_affine_<repeat>_<format> instances in the thorough tier (all 16 with VERIF_C08_ALLSEPCONV=1, "
        "measured: pass, ~13 min at 6 jobs); 1 in the quick tier",
        "r5g6b5 iterators: width <= 7",
        "float (wide) fetchers: bits_image_fetch_pixel_bilinear_float, accum_float/reduce_float",
        "fetch_pixel_general_32 alpha-map branch; __bits_image_fetch_general stepping of w beyond the first pixel in the quick tier",
        "convolution kernels larger than 1x1 with SYMBOLIC weights (2x2/3x3 jobs exist behind VERIF_C08_BIGKERNEL=1 but did not finish in 17 min); "
        "window alignment, tap order and matrix stride of kernels up to 4x4 are covered with one-hot weights (conv.onehot.*), the weighted sum itself "
        "only for 1x1 kernels",
        "pixman_transform_point_3d itself (C11)",
    ],
}
META = ext_meta(META, EXT)
