"""C08 — transformed sources are sampled at the documented position, filter and repeat.

Decomposition (DESIGN.md §5 C08; spec/spec_sample.h is written from rounding.txt and the property text):
  repeat.*     repeat() NONE/NORMAL/PAD/REFLECT and MOD            (pixman-inlines.h, pixman-private.h)
  bilin.*      pixman_fixed_to_bilinear_weight, bilinear_interpolation (64-bit variant, 7-bit weights)
  nearest.* bilinear.* conv.* sepconv.*   bits_image_fetch_pixel_* with a recording get_pixel
  affine.* general.*   __bits_image_fetch_affine_no_alpha stepping, __bits_image_fetch_general quotient
  padbounds.*  pad_repeat_get_scanline_bounds
Jobs whose name starts with `finding.` hold obligations that FAIL on the pinned tree (own job each)."""
from vdriver import Job

ARITH = ["--signed-overflow-check", "--div-by-zero-check", "--conversion-check"]
SAFE = ["--signed-overflow-check", "--div-by-zero-check", "--bounds-check", "--pointer-check"]

A_REFLECT = ("repeat(REFLECT)/MOD: size <= 2^30-1 (2*size is an int) and c > INT32_MIN (-c is an int); call sites pass the integer part of a 16.16 "
             "coordinate +- a kernel width and an image dimension")


def normal_loops(cong):
    c1 = " && ((long long) __CPROVER_loop_entry(*c) - (long long) *c) % (long long) size == 0" if cong else ""
    l1 = {"assigns": "*c", "decreases": "*c",
          "invariants": "*c <= __CPROVER_loop_entry(*c) && (__CPROVER_loop_entry(*c) >= 0 ==> *c >= 0) && "
                        "(__CPROVER_loop_entry(*c) < size ==> *c == __CPROVER_loop_entry(*c))" + c1,
          "vars": ["c", "size"], "headers": []}
    l2 = {"assigns": "*c", "decreases": "-(long long) *c",
          "invariants": "*c >= __CPROVER_loop_entry(*c) && (__CPROVER_loop_entry(*c) < 0 ==> *c < size) && "
                        "(__CPROVER_loop_entry(*c) >= 0 ==> *c == __CPROVER_loop_entry(*c))" + c1,
          "vars": ["c", "size"], "headers": []}
    return {"repeat": [l1, l2]}


def jobs(tier):
    th = tier != "quick"
    js = []
    # ---------------------------------------------------------------- (1) repeat
    js.append(Job("repeat.none", "C08/repeat.c", defines={"VC_MODE": 0}, cbmc_flags=ARITH, kind="proof", functions=["repeat"],
                  domain="every int c, every size >= 1", timeout=120, min_props=3))
    js.append(Job("repeat.pad", "C08/repeat.c", defines={"VC_MODE": 2}, cbmc_flags=ARITH, kind="proof", functions=["repeat"],
                  domain="every int c, every size >= 1", timeout=120, min_props=2))
    js.append(Job("repeat.reflect", "C08/repeat.c", defines={"VC_MODE": 3, "VC_SIZEMAX": "((1<<30)-1)"}, cbmc_flags=ARITH, kind="proof",
                  functions=["repeat", "MOD"], domain="every c > INT32_MIN, every size in [1, 2^30-1]", timeout=900, min_props=3,
                  assumptions=[A_REFLECT]))
    js.append(Job("repeat.reflect.size1_size2", "C08/repeat.c", defines={"VC_MODE": 5}, cbmc_flags=ARITH, kind="proof",
                  functions=["repeat", "MOD"], domain="size 1 and 2, every c > INT32_MIN: literal tables", timeout=120, min_props=2,
                  assumptions=[A_REFLECT]))
    js.append(Job("repeat.mod", "C08/repeat.c", defines={"VC_MODE": 4, "VC_SIZEMAX": "2147483647"}, cbmc_flags=ARITH, kind="proof",
                  functions=["MOD"], domain="every a > INT32_MIN, every b >= 1", timeout=900, min_props=2, assumptions=[A_REFLECT]))
    js.append(Job("repeat.normal.k4", "C08/repeat.c", defines={"VC_MODE": 1, "VC_K": 4}, unwind=7, cbmc_flags=ARITH, kind="bounded",
                  bound="|c| <= 4*size (the two while loops unwound 6 times)", functions=["repeat"],
                  domain="every size >= 1, c in [-4*size, 4*size]", timeout=600, min_props=3))
    js.append(Job("repeat.normal.range_termination", "C08/repeat_d.c", route="D", enforce="repeat", defines={"VC_CONG": 0},
                  loops=normal_loops(0), kind="proof", functions=["repeat"],
                  domain="every int c, every size >= 1 (loop contracts, no unwinding): TRUE, 0 <= r < size, both loops terminate",
                  timeout=300, min_props=10))
    js.append(Job("repeat.normal.congruent", "C08/repeat_d.c", route="D", enforce="repeat", defines={"VC_CONG": 1},
                  loops=normal_loops(1), kind="proof", functions=["repeat"],
                  domain="every int c, every size >= 1 (loop contracts, no unwinding): r == c (mod size)",
                  timeout=900, min_props=10))
    return js


META = {
    "level": "proof",
    "trusted_base": ["spec/spec_sample.h: sample positions, weights, kernel alignment and repeat maps as written from rounding.txt and the property text"],
    "assumptions": [],
    "not_covered": [],
}
