"""C19 — blt, fill and fill_boxes affect exactly the rectangle and agree with compositing."""
from vdriver import Job

PC = ["--pointer-check", "--bounds-check"]


def fill_h_jobs(tier):
    js = []
    # (bpp, words, smax, wmax, hmax)
    cfg = [(32, 12, 4, 5, 3), (16, 9, 3, 7, 3), (8, 9, 3, 9, 3), (1, 9, 3, 96, 3)]
    for bpp, words, smax, wmax, hmax in cfg:
        if bpp == 1:
            us = "pixman_fill1.0:%d,pixman_fill1.1:%d,pixman_fill1_line.0:%d" % (hmax + 2, hmax + 2, wmax // 32 + 2)
        else:
            us = "pixman_fill%d.0:%d,pixman_fill%d.1:%d" % (bpp, wmax + 2, bpp, hmax + 2)  # one spare iteration: off-by-one code fails an obligation, not the unwinding bound
        js.append(Job("fill.h.bpp%d" % bpp, "C19/fill_h.c",
                      defines={"VC_BPP": bpp, "VC_WORDS": words, "VC_SMAX": smax, "VC_WMAX": wmax, "VC_HMAX": hmax},
                      cbmc_flags=PC + ["--unwindset", us], unwind=1, kind="bounded", extra_sources=RL,
                      bound="width <= %d pixels, height <= %d, stride <= %d words, buffer %d words" % (wmax, hmax, smax, words),
                      functions=["fast_path_fill", "pixman_fill%d" % bpp] + (["pixman_fill1_line"] if bpp == 1 else []),
                      domain="every stride/x/y/width/height with the rectangle inside the buffer, every filler and buffer content, ghost pixel slot anywhere in the buffer (row padding, neighbouring bits)",
                      assumptions=["pixman_fill: stride > 0 and the rectangle lies inside the buffer described by (bits, stride) (caller's obligation)"],
                      timeout=600, min_props=3))
    # (lead) the same with the heap block exactly the described buffer: no access of any kind outside it (C04; seeds C19-5, C04-1 class)
    for bpp, words, smax, wmax, hmax in cfg:
        if bpp == 1:
            us = "pixman_fill1.0:%d,pixman_fill1.1:%d,pixman_fill1_line.0:%d" % (hmax + 2, hmax + 2, wmax // 32 + 2)
        else:
            us = "pixman_fill%d.0:%d,pixman_fill%d.1:%d" % (bpp, wmax + 2, bpp, hmax + 2)
        js.append(Job("fill.h.exact.bpp%d" % bpp, "C19/fill_h.c",
                      defines={"VC_BPP": bpp, "VC_WORDS": words, "VC_SMAX": smax, "VC_WMAX": wmax, "VC_HMAX": hmax, "VC_GUARDW": 0},
                      cbmc_flags=PC + ["--unwindset", us], unwind=1, kind="bounded", extra_sources=RL,
                      bound="width <= %d pixels, height <= %d, stride <= %d words, buffer %d words" % (wmax, hmax, smax, words),
                      functions=["fast_path_fill", "pixman_fill%d" % bpp] + (["pixman_fill1_line"] if bpp == 1 else []),
                      domain="as fill.h.bpp%d, the heap block being exactly the described buffer: every read and write stays inside it "
                             "(rectangles ending at the last unit of the last row included)" % bpp,
                      assumptions=["pixman_fill: stride > 0 and the rectangle lies inside the buffer described by (bits, stride) (caller's obligation)"],
                      timeout=600, min_props=3))
    js.append(Job("fill.unsupported_bpp", "C19/fill_h.c", defines={"VC_UNSUPPORTED": None, "VC_WORDS": 8},
                  cbmc_flags=PC, unwind=1, kind="proof", functions=["fast_path_fill"], extra_sources=RL,
                  domain="every int bpp outside {1,8,16,32}, every other argument: FALSE and no word of the buffer changed",
                  timeout=300, min_props=2))
    return js


ACCEPTED = ["a8r8g8b8", "x8r8g8b8", "a8b8g8r8", "x8b8g8r8", "b8g8r8a8", "b8g8r8x8", "r8g8b8a8", "r8g8b8x8",
            "r5g6b5", "b5g6r5", "a8", "a1"]


def delegate_jobs(tier):
    js = []
    n = 6 if tier == "quick" else 8
    for which, d in (("fill", {}), ("blt", {"VC_BLT": None})):
        dd = dict(d)
        dd["VC_CHAIN"] = n
        js.append(Job("delegate.%s" % which, "C19/delegate.c", defines=dd, unwind=n + 2, cbmc_flags=PC,
                      kind="bounded", bound="fallback chain length <= %d (the longest chain built on x86 has 6)" % n,
                      functions=["_pixman_implementation_%s" % which],
                      domain="every chain length 0..%d, every subset of implementations having the primitive, every return pattern, every argument value" % n,
                      timeout=400, min_props=6))
    return js


def color_jobs(tier):
    js = []
    for f in ACCEPTED:
        js.append(Job("color.%s" % f, "C19/color.c", defines={"VC_FMT": f}, kind="proof", unwind=1,
                      functions=["color_to_pixel", "color_to_uint32"],
                      domain="every 16-bit alpha/red/green/blue, format %s" % f, timeout=300, min_props=4))
    js.append(Job("color.reject", "C19/color.c", defines={"VC_REJECT": None}, kind="proof", unwind=1,
                  functions=["color_to_pixel"], domain="every colour, every 32-bit format code outside the 12 accepted ones",
                  timeout=300, min_props=2))
    js.append(Job("color.same_uint32", "C19/color.c", defines={"VC_SAME": None}, kind="proof", unwind=1,
                  functions=["color_to_uint32", "pixman-solid-fill.c:color_to_uint32"], domain="every colour",
                  timeout=300, min_props=2))
    # genuine finding (own job): signed left shift overflow in pixman.c's color_to_uint32
    js.append(Job("color.shift_defined", "C19/color.c", defines={"VC_SHIFT": None, "VC_KEEP_SHIFT_CHECK": None},
                  kind="proof", unwind=1, functions=["color_to_uint32"],
                  domain="every colour; obligation = no undefined behaviour (signed overflow) in color_to_uint32",
                  timeout=300, min_props=2))
    return js


BOX_ASSUME = ["fill_boxes: boxes well-formed and non-empty (x1 < x2, y1 < y2), all coordinates (boxes, clip) within +-2^29, image size 1..32767",
              "fill_boxes: destination clip region of one rectangle (or no clip)",
              "signed-overflow check switched off for the text of pixman.c (color_to_uint32's `alpha >> 8 << 24`: own job color.shift_defined)"]


def boxes_jobs(tier):
    js = []
    fmts = ACCEPTED if tier != "quick" else ["a8r8g8b8", "b8g8r8x8", "r5g6b5", "a8", "a1"]
    for api, d0 in (("boxes", {}), ("rects", {"VC_RECTS": None})):
        for f in fmts:
            if api == "rects" and tier == "quick" and f not in ("a8r8g8b8", "a1"):
                continue
            d = dict(d0)
            d.update({"VC_FMT": f, "VC_CHECK": 0, "VC_NBOX": 1})
            js.append(Job("%s.routes.%s" % (api, f), "C19/boxes.c", defines=d, unwind=3, kind="bounded",
                          bound="<= 1 box, clip of <= 1 rectangle (region operations = models/region1_model.h)",
                          functions=["pixman_image_fill_boxes", "pixman_fill"] + (["pixman_image_fill_rectangles"] if api == "rects" else []),
                          domain="every operator code, colour, image size, stride, clip rectangle, box; ghost point anywhere in int32^2; destination format %s" % f,
                          assumptions=BOX_ASSUME, timeout=300, min_props=15))
        d = dict(d0)
        d.update({"VC_OTHER_FMT": None, "VC_CHECK": 0, "VC_NBOX": 2})
        js.append(Job("%s.routes.other_format" % api, "C19/boxes.c", defines=d, unwind=3, kind="bounded",
                      bound="<= 2 boxes",
                      functions=["pixman_image_fill_boxes"] + (["pixman_image_fill_rectangles"] if api == "rects" else []),
                      domain="every operator code, colour, every format code outside the 12 accepted ones: general route only, one composite per box with the reduced operator/colour",
                      assumptions=BOX_ASSUME, timeout=300, min_props=10))
    js.append(Job("boxes.lemma.operator_reduction", "C19/boxes.c", defines={"VC_LEMMA": None}, kind="proof",
                  functions=[], domain="Render equations (spec_un8.h), every source/destination pixel, every channel: OVER with opaque source == SRC, CLEAR == SRC of transparent",
                  timeout=300, min_props=3))
    # genuine findings: own jobs
    js.append(Job("boxes.bounds", "C19/boxes.c", defines={"VC_FMT": "a8r8g8b8", "VC_CHECK": 1, "VC_NBOX": 1}, unwind=3,
                  kind="bounded", bound="<= 1 box, clip of <= 1 rectangle", functions=["pixman_image_fill_boxes"],
                  domain="rectangles handed to pixman_fill lie inside the image bounds", assumptions=BOX_ASSUME, timeout=300))
    js.append(Job("boxes.bounds_e2e", "C19/boxes.c", defines={"VC_FMT": "a8r8g8b8", "VC_CHECK": 4, "VC_NBOX": 1}, unwind=3,
                  cbmc_flags=["--unwindset", "pixman_fill32.0:11,pixman_fill32.1:11"], extra_sources=RL,
                  kind="bounded", bound="4x4 a8r8g8b8 image, <= 1 box, box/clip coordinates in -2..7",
                  functions=["pixman_image_fill_boxes", "pixman_fill", "fast_path_fill", "pixman_fill32"],
                  domain="end to end through the real fast_path_fill on a heap block of exactly the image size: no access outside it",
                  assumptions=BOX_ASSUME, timeout=1200))
    js.append(Job("boxes.alpha_map", "C19/boxes.c", defines={"VC_FMT": "a8r8g8b8", "VC_CHECK": 2, "VC_NBOX": 1}, unwind=3,
                  kind="bounded", bound="<= 1 box, clip of <= 1 rectangle", functions=["pixman_image_fill_boxes"],
                  domain="direct fill not used when the destination has an alpha map", assumptions=BOX_ASSUME, timeout=300))
    js.append(Job("boxes.accessors", "C19/boxes.c", defines={"VC_FMT": "a8r8g8b8", "VC_CHECK": 3, "VC_NBOX": 1}, unwind=3,
                  kind="bounded", bound="<= 1 box, clip of <= 1 rectangle", functions=["pixman_image_fill_boxes"],
                  domain="direct fill not used when the destination has read/write accessors", assumptions=BOX_ASSUME, timeout=300))
    return js


RL = ["harness/C19/replay_link.c"]


def simd_jobs(tier):
    js = []
    fill_us = "sse2_fill.0:2,sse2_fill.1:4,sse2_fill.2:1,sse2_fill.3:4,sse2_fill.4:3"
    blt_us = "sse2_blt.0:2,sse2_blt.1:4,sse2_blt.2:2,sse2_blt.3:4,sse2_blt.4:4,sse2_blt.5:3"
    bound = "rectangle width*bpp <= 64 bytes, height <= 2, stride fixed at 20 words (80 bytes), every x (= every alignment phase mod 16)"
    fills = (8, 16, 32) if tier != "quick" else (16,)   # 16 bpp: filler replication + masking is the bug-prone part (seed C19-2)
    for bpp in fills:
        js.append(Job("simd.sse2_fill.bpp%d" % bpp, "C19/simd.c", defines={"VC_FILL": None, "VC_BPP": bpp},
                      cbmc_flags=["--unwindset", fill_us], unwind=1, kind="bounded", bound=bound, extra_sources=RL,
                      functions=["sse2_fill"], domain="every x/y/width/height inside the buffer, every filler and content, ghost unit anywhere; aligned stores 16-byte aligned",
                      timeout=600 if bpp == 32 else 2400, min_props=3))
    if tier == "quick":
        # quick tier: two fixed alignment cases, one row
        for x, sx in ((1, 2), (0, 1)):
            js.append(Job("simd.sse2_blt.bpp32.x%d.sx%d" % (x, sx), "C19/simd.c",
                          defines={"VC_BLT": None, "VC_BPP": 32, "VC_X": x, "VC_SX": sx, "VC_ROWS": 1, "VC_WORDS": 12, "VC_WMAXB": 40},
                          cbmc_flags=["--unwindset", "sse2_blt.0:2,sse2_blt.1:4,sse2_blt.2:1,sse2_blt.3:3,sse2_blt.4:4,sse2_blt.5:2"],
                          unwind=1, kind="bounded", extra_sources=RL, functions=["sse2_blt"],
                          bound="one row, width <= 10 pixels (40 bytes), destination x = %d, source x = %d, stride 12 words" % (x, sx),
                          domain="every width/content, ghost unit anywhere; source unchanged", timeout=900, min_props=4))
    else:
        for bpp in (16, 32):
            js.append(Job("simd.sse2_blt.bpp%d" % bpp, "C19/simd.c", defines={"VC_BLT": None, "VC_BPP": bpp},
                          cbmc_flags=["--unwindset", blt_us], unwind=1, kind="bounded", bound=bound, extra_sources=RL,
                          functions=["sse2_blt"], domain="every source/destination position inside two separate buffers, every content, ghost unit anywhere; source unchanged",
                          timeout=4000, min_props=4))
    for which in ("FILL", "BLT"):
        js.append(Job("simd.sse2_%s.guard" % which.lower(), "C19/simd.c", defines={"VC_GUARD": None, "VC_" + which: None, "VC_BPP": 32},
                      unwind=1, kind="proof", extra_sources=RL, functions=["sse2_" + which.lower()],
                      domain="every argument with unsupported bpp (fill: outside {8,16,32}; blt: src_bpp != dst_bpp or outside {16,32}): FALSE, nothing written",
                      timeout=400, min_props=2))
        js.append(Job("simd.sse2_%s.guard_small" % which.lower(), "C19/simd.c",
                      defines={"VC_GUARD": None, "VC_SMALL": None, "VC_" + which: None, "VC_BPP": 32},
                      unwind=5, kind="bounded", bound="tiny rectangle (<= 2x1) inside 8-word buffers, bpp 0..32", extra_sources=RL,
                      functions=["sse2_" + which.lower()],
                      domain="same guard obligations with arguments that keep wrongly admitted requests inside the unwinding bounds",
                      timeout=900, min_props=2))
    return js


def jobs(tier):
    js = []
    js += fill_h_jobs(tier)
    js += delegate_jobs(tier)
    js += color_jobs(tier)
    js += boxes_jobs(tier)
    js += simd_jobs(tier)
    return js


META = {
    "level": "proof",
    "explanation": "proof: color_to_pixel == store of the colour (12 formats x all colours, all other codes rejected), color_to_uint32 twins, "
                   "unsupported-bpp / bpp-mismatch guards of fast_path_fill, sse2_fill, sse2_blt (FALSE, nothing written), operator-reduction lemma. "
                   "bounded: fill row/rect loops (route H, symbolic stride), SSE2 fill/blt, delegation chain <= 6, fill_boxes with <= 1 box over a one-rectangle region model.",
    "trusted_base": [
        "models/sse2_models.h: _mm_store_si128/_mm_load_si128 = plain 16-byte access + 16-byte alignment obligation (Intel SDM MOVDQA); "
        "_mm_set_epi32/_mm_loadu_si128 = gcc's emmintrin.h definitions (vector literal / plain load), no __builtin_ia32_* is reached by sse2_fill/sse2_blt",
        "models/region1_model.h: pixman_region32_init_rects/intersect/rectangles/fini for regions of <= 1 rectangle (real region code: C06/C07)",
        "spec/spec_format.h field table (C10) for the 12 formats accepted by color_to_pixel; spec/spec_un8.h Render equations for the reduction lemma",
        "CBMC memory model: every object base is 16-byte aligned (alignment phase = offset)",
        "recording stubs in harness/C19/boxes.c for _pixman_implementation_fill, pixman_image_composite32 (call site renamed with __COUNTER__), "
        "pixman_image_create_solid_fill, pixman_image_unref, _pixman_image_validate",
    ],
    "assumptions": [
        "pixman_fill / pixman_blt: stride > 0 and the rectangle(s) lie inside the buffer(s) described by (bits, stride); source and destination of blt are distinct buffers",
        "little-endian x86-64 only (bit order of bpp 1, SSE2)",
        "padding bits of x8r8g8b8-like formats are not compared between direct fill and general store (fill writes the alpha byte, the store writes 0; no fetcher reads them)",
        "rows beyond the unrolled height are processed by the same code (argued, not proved): outer row loops unrolled, height <= 3 (<= 2 for SSE2)",
    ],
    "not_covered": [
        "unbounded (route D) loop contracts for pixman_fill32's row loop and pixman_fill1_line: not done (time), row loops are unrolled to <= 5..96 pixels",
        "mmx_fill / mmx_blt (inline asm paths, USE_X86_MMX): not modelled",
        "pixman_fill / pixman_blt through the real _pixman_choose_implementation chain (get_implementation): delegation is checked on stub chains only",
        "fill_boxes with more than one box on the direct route (needs the real region code: validate/pixman_op do not finish) and clips of more than one rectangle",
        "overlapping source/destination in sse2_blt (memmove per chunk only)",
        "the equality of the general (composite) route with the fill at pixel level is delegated: C01/C02 (combiners, kernels), C10 (store), here only the request is compared",
    ],
}
