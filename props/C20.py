"""C20 — image lifetime: resources released exactly once, when the last reference goes.

Route H on the real pixman-image.c (+ real pixman-region32.c, pixman-utils.c in the same TU so that
their malloc/free are counted and can fail through in_failmask).  img_wf (spec/spec_image.h +
harness/C20/ih.h) is assumed before and asserted after every operation; it is inductive, so histories
of any length follow.
"""
from vdriver import Job

HEAP = ["--memory-leak-check", "--pointer-check"]
TYPES = [("bits", 0), ("linear", 1), ("conical", 2), ("radial", 3), ("solid", 4)]
BUILT = ("hand-built image, every field symbolic: any type, any ref_count/alpha_count, each owned block present or "
         "absent (block sizes: filter params 6 words, clip <= 2 boxes, 3 stops — sizes are irrelevant to ownership)")
SELF_NOTE = ("EXPECTED TO FAIL on the unchanged tree: pixman_image_set_alpha_map (img, img) is accepted "
             "(DESIGN.md §7); own job so that the rest stays green")


def jobs(tier):
    js = []
    # ---- ref / unref / fini
    for tname, t in TYPES:
        js.append(Job("unref." + tname, "C20/unref.c", defines={"VI_TYPE": t}, kind="proof", cbmc_flags=HEAP, unwind=11,
                      timeout=600, min_props=12, functions=["pixman_image_unref", "_pixman_image_fini"],
                      domain=BUILT + "; optional attached alpha map (BITS) with its own counts/blocks/callback; image type " + tname))
    js.append(Job("ref_unref", "C20/unref.c", defines={"VI_REF": 1}, kind="proof", cbmc_flags=HEAP, unwind=11, timeout=900,
                  min_props=16, functions=["pixman_image_ref", "pixman_image_unref", "_pixman_image_fini"],
                  domain=BUILT + "; ref then unref then unref", assumptions=["ref_count below INT32_MAX"]))
    js.append(Job("unref.alpha_count", "C20/unref.c", defines={"VI_ACOUNT": 1, "VI_TYPE": 0}, kind="proof", cbmc_flags=HEAP,
                  unwind=11, timeout=600, min_props=3, functions=["_pixman_image_fini"],
                  domain="BITS image with an attached alpha map that survives; ghost invariant alpha_count == #attachments"))
    # ---- alpha map exchange
    for sel, sname in ((0, "detach"), (1, "fresh"), (2, "same")):
        js.append(Job("alpha_map." + sname, "C20/alpha_map.c", defines={"VI_SEL": sel}, kind="proof", cbmc_flags=HEAP,
                      unwind=11, timeout=900, min_props=12, functions=["pixman_image_set_alpha_map"],
                      domain="img + optional old map; argument = " +
                             {0: "NULL", 1: "a fresh image of any type, with or without its own alpha map", 2: "the attached map again"}[sel]
                             + "; " + BUILT,
                      assumptions=["reference and attachment counts below INT32_MAX"]))
    js.append(Job("alpha_map.self", "C20/alpha_map.c", defines={"VI_SELF": 1}, kind="proof", cbmc_flags=HEAP, unwind=11,
                  timeout=900, min_props=3, functions=["pixman_image_set_alpha_map"], note=SELF_NOTE,
                  domain="argument == img (a one-element chain); " + BUILT))
    # ---- setters replacing owned buffers
    js.append(Job("setter.set_transform", "C20/setters.c", defines={"VI_FN": 1}, kind="proof", cbmc_flags=HEAP, unwind=40,
                  timeout=600, min_props=10, functions=["pixman_image_set_transform"],
                  domain="argument NULL / any matrix / the stored pointer; the allocation may fail (in_failmask); " + BUILT))
    js.append(Job("setter.set_filter", "C20/setters.c", defines={"VI_FN": 2}, kind="bounded",
                  bound="caller's parameter array <= 8 words", cbmc_flags=HEAP, unwind=14, timeout=600, min_props=10,
                  functions=["pixman_image_set_filter"],
                  assumptions=["SEPARABLE_CONVOLUTION is only set with a non-NULL parameter block of >= 4 header words whose "
                               "size fields are <= 1024 and phase bits <= 8 (API: what pixman_filter_create_separable_convolution "
                               "produces; otherwise params[0..3] are read out of bounds / 1 << bits is undefined)"],
                  domain="any filter code, params NULL or <= 8 words, the allocation may fail; " + BUILT))
    js.append(Job("setter.set_clip_region32", "C20/setters.c", defines={"VI_FN": 3, "IH_MEMMOVE_MODEL": 1}, kind="bounded",
                  bound="argument region <= 3 boxes, old clip block holds 2", cbmc_flags=HEAP, unwind=14, timeout=600,
                  min_props=10, functions=["pixman_image_set_clip_region32", "pixman_region32_copy"],
                  assumptions=["argument is a valid region: a heap data block holds >= 1 rectangle (with a 0-rectangle heap "
                               "block pixman_region32_copy allocates a size-0 block that nothing ever frees)",
                               "CBMC only: memmove modelled by a word-wise forward copy between distinct objects (ih.h; "
                               "cbmc 6.11's library memmove with symbolic length crashes in trace generation)"],
                  domain="argument NULL / one rectangle / empty / heap block; every allocation may fail; " + BUILT))
    for sh in (0, 1):
        js.append(Job("setter.set_clip_region.shape%d" % sh, "C20/setters.c",
                      defines={"VI_FN": 4, "VI_RSHAPE": sh, "IH_PRUNE_VALIDATE": 1}, kind="bounded",
                      bound="16-bit argument region with %s" % ("one rectangle" if sh == 0 else "no rectangle"),
                      cbmc_flags=HEAP, unwind=18, timeout=600, min_props=10, extra_sources=["repo:pixman/pixman-region16.c"],
                      functions=["pixman_image_set_clip_region", "pixman_region32_copy_from_region16"],
                      domain="argument NULL or a 16-bit region of <= 1 rectangle; " + BUILT))
    return js


META = {
    "level": "proof",
    "trusted_base": ["spec/spec_image.h: img_wf (field part) written from the property",
                     "harness/C20/ih.h: hand-built images (the builder establishes the heap part of img_wf: every owned "
                     "pointer NULL/static or a fresh block of its own)"],
    "assumptions": [
        "destroy callback is a harness stub (counts calls, does not touch the image's ownership)",
        "glyph cache (free_glyph / clear_table) is C17's job, not repeated here",
        "images are built by hand, not by the constructors: constructors are covered only as far as C13/C15 cover them",
    ],
    "not_covered": ["pixman_image_set_clip_region with > 1 rectangle (pixman_region32_init_rects -> validate; > 16 boxes: malloc'd "
                    "temporary)", "pixman-glyph.c free_glyph/clear_table (C17)",
                    "constructors' failure paths (pixman_image_create_bits etc.: C15)"],
}
