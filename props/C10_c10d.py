"""C10 (c10d) — UNBOUNDED route-D contracts on the MAKE_ACCESSORS scanline functions of pixman-access.c (and of the
accessor build pixman-access-accessors.c): fetch_scanline_<f> / store_scanline_<f> for ANY width and x — enforced
function contract + inductive loop invariant (base, step, decreases), no unwinding — ghost pixel for the value, ghost
bit for the store frame, symbolic palette for the indexed formats.

No __CPROVER_old / __CPROVER_loop_entry: pre-state values are free ghost globals bound by an equality in `requires`
(spec/spec_c10d.h).  All 38 formats x {fetch, store} close (4-70 s each); these jobs supersede the width <= 4 / 8
`fetch_scanline.<f>`, `store_value.<f>`, `store_frame.<f>` jobs of props/C10.py for the same format (and the six
`rowD.fetch_scanline.<f>` of the first pass).

Exposes jobs(tier) + META_EXTRA for props/C10.py to merge; standalone: bin/check C10_c10d [--tier thorough]."""
from vdriver import Job

# the literal list of props/C10.py (kept in step by its table_jobs() scan of the real accessors[] table)
try:
    from C10 import FORMATS
except Exception:
    FORMATS = [
        ("a8r8g8b8", 32, "rgb"), ("x8r8g8b8", 32, "rgb"), ("a8b8g8r8", 32, "rgb"), ("x8b8g8r8", 32, "rgb"),
        ("b8g8r8a8", 32, "rgb"), ("b8g8r8x8", 32, "rgb"), ("r8g8b8a8", 32, "rgb"), ("r8g8b8x8", 32, "rgb"),
        ("x14r6g6b6", 32, "rgb"), ("r8g8b8", 24, "rgb"), ("b8g8r8", 24, "rgb"), ("r5g6b5", 16, "rgb"), ("b5g6r5", 16, "rgb"),
        ("a1r5g5b5", 16, "rgb"), ("x1r5g5b5", 16, "rgb"), ("a1b5g5r5", 16, "rgb"), ("x1b5g5r5", 16, "rgb"),
        ("a4r4g4b4", 16, "rgb"), ("x4r4g4b4", 16, "rgb"), ("a4b4g4r4", 16, "rgb"), ("x4b4g4r4", 16, "rgb"),
        ("a8", 8, "rgb"), ("r3g3b2", 8, "rgb"), ("b2g3r3", 8, "rgb"), ("a2r2g2b2", 8, "rgb"), ("a2b2g2r2", 8, "rgb"),
        ("c8", 8, "color"), ("g8", 8, "gray"), ("x4a4", 8, "rgb"),
        ("a4", 4, "rgb"), ("r1g2b1", 4, "rgb"), ("b1g2r1", 4, "rgb"), ("a1r1g1b1", 4, "rgb"), ("a1b1g1r1", 4, "rgb"),
        ("c4", 4, "color"), ("g4", 4, "gray"), ("a1", 1, "rgb"), ("g1", 1, "gray"),
    ]

MAXBYTES = 1 << 20      # cap of the row object in the precondition (bytes): 2^23 1-bpp pixels .. 2^18 32-bpp pixels

# quick tier: one representative per storage class (32 / 24 / 16 / 8 bpp, nibble, bit, colour + gray palette, x-alpha)
QUICK_STORE = ("a8r8g8b8", "b8g8r8x8", "r8g8b8", "r5g6b5", "a1b5g5r5", "a8", "a4", "b1g2r1", "a1", "c8", "g4", "g1")
QUICK_FETCH = ("a8r8g8b8", "x8r8g8b8", "a1", "g4", "c8")
# accessor build (thorough tier): one per storage class
ACC_FORMATS = ("a8r8g8b8", "r8g8b8", "r5g6b5", "a8", "a4", "a1", "c8", "g4")
# any row y >= 0 / any rowstride >= 0 instead of row 0 (thorough tier, 3-4x the time of the row-0 job): one per storage class
# (the row pointer is computed by the common MAKE_ACCESSORS text; r8g8b8 / r5g6b5 any-row fetches took 250-330 s and are left out)
ANYROW_FORMATS = ("a8r8g8b8", "a8", "a4", "a1", "c8", "g4")


# the pixel row as the specification sees it: the loop-local row pointer (direct build), or that pointer plus the
# callbacks' displacement g_rowbytes (accessor build: the first g_rowbytes bytes of the object are the decoy)
def fetch_tpl(acc):
    row = "(bits + g_disp)" if acc else "bits"
    inv = ("0 <= i && i <= width && buffer == g_buf + i && "
           "(g_k < i ==> SD_FETCH_POST(VF, g_buf[g_k], %s, x, g_k, g_rgba)) && "
           "g_buf[width] == g_guard" % row)
    return {"assigns": "i, buffer, __CPROVER_object_whole(buffer)", "invariants": inv, "decreases": "width - i",
            "vars": ["i", "buffer", "width", "x", "bits", "g_k=g_k", "g_buf=g_buf", "g_guard=g_guard", "g_rgba=g_rgba"] + (["g_disp=g_disp"] if acc else []),
            "headers": ["spec_c10d.h"]}


def store_tpl(acc):
    row = "(dest + g_disp)" if acc else "dest"
    inv = ("0 <= i && i <= width && "
           "(g_k < i ==> SD_STORE_POST(VF, %s, x, g_k, values[g_k], g_ent)) && "
           "SD_FRAME_AT(VF, (%s - g_rowoff), g_rowoff, g_fb, g_fold, x, i)" % (row, row))
    v = ["i", "dest", "values", "width", "x", "g_k=g_k", "g_fb=g_fb", "g_fold=g_fold", "g_ent=g_ent", "g_rowoff=g_rowoff"]
    if acc:
        inv += " && (dest - g_rowoff)[g_db] == g_dold"
        v += ["g_db=g_db", "g_dold=g_dold", "g_disp=g_disp"]
    return {"assigns": "i, __CPROVER_object_whole(dest)", "invariants": inv, "decreases": "width - i", "vars": v,
            "headers": ["spec_c10d.h"]}


def row_job(f, kind, store, acc=False, nocanary=False, anyrow=False):
    fn = ("store_scanline_" if store else "fetch_scanline_") + f
    d = {"VF": f, "VD_STORE": 1 if store else 0, "VD_MAXBYTES": MAXBYTES, "VD_ANYROW": 1 if anyrow else 0}
    if acc:
        d["VD_ACC"] = 1
    idx = kind != "rgb"
    what = ("raw pixel x+g_k == NARROW(values[g_k]) on the defined bits" if not idx else
            "raw pixel x+g_k == low bpp bits of indexed->ent[key(values[g_k])]") if store else \
           ("buffer[g_k] == WIDEN(raw pixel x+g_k), absent alpha 0xff" if not idx else "buffer[g_k] == indexed->rgba[raw pixel x+g_k]")
    dom = ("enforced function contract + inductive loop invariant (base, step, decreases; no unwinding): every width >= 0 and x >= 0 "
           "with (x+width)*bpp inside a row of any size <= %d bytes (multiple of 4), %s, every memory content%s, "
           "ghost pixel g_k < width: %s; %s%s" % (
               MAXBYTES, "any row 0 <= y <= 32767 of a top-down image with any rowstride 0..32767 words" if anyrow else "row y == 0",
               ", every palette (symbolic pixman_indexed_t)" if idx else "", what,
               "ghost bit anywhere in the pixel memory (rows before y included) outside [x, x+width)*bpp of row y unchanged, nothing but the pixel memory object assigned" if store else
               "guard word buffer[width] unchanged, nothing but the buffer object assigned (image memory, palette: frame)",
               "; accessor build: pixel memory reachable only through read_func/write_func (displacement g_rowbytes), decoy area at "
               "image->bits unchanged / never read" if acc else ""))
    name = "rowD2.%s.%s%s%s%s" % ("store" if store else "fetch", f, ".acc" if acc else "", ".anyrow" if anyrow else "", ".nc" if nocanary else "")
    note = ""
    if nocanary:
        note = ("twin of %s without the end-of-harness canary: a change of the loop bound (i <= width) makes the loop exit "
                "unreachable under the invariant, so the canary job is 'undecided'; this twin reports the failing "
                "loop_invariant_step obligation as a violation" % name[:-3])
    # measured (shared machine, load 12-25): row 0: store 4-18 s, fetch 9-54 s; accessor build 20-128 s; any row 12-65 s
    return Job(name, "C10/c10d_row.c", route="D",
               enforce=fn, defines=d, loops={fn: [store_tpl(acc) if store else fetch_tpl(acc)]}, kind="proof",
               cbmc_flags=["--slice-formula"], nocanary=nocanary, note=note,
               functions=[fn, "convert_and_store_pixel" if store else "fetch_and_convert_pixel",
                          "convert_pixel_from_a8r8g8b8" if store else "convert_pixel_to_a8r8g8b8", "convert_pixel", "convert_channel",
                          "get_shifts", "unorm_to_unorm"],
               domain=dom, timeout=900 if (acc or anyrow) else 600, min_props=10)


def jobs(tier):
    js = []
    kinds = {f: k for f, _, k in FORMATS}
    for f, bpp, kind in FORMATS:
        if True:    # (lead) every format in both tiers: fetch 11-60 s, store 3-22 s each
            js.append(row_job(f, kind, 0))
        if True:
            js.append(row_job(f, kind, 1))
    # MAKE_ACCESSORS is one macro: a changed loop bound shows in every format; two twins without canary report it
    js.append(row_job("a8", kinds["a8"], 1, nocanary=True))
    js.append(row_job("a1", kinds["a1"], 0, nocanary=True))
    if tier != "quick":
        for f in ACC_FORMATS:
            js.append(row_job(f, kinds[f], 0, acc=True))
            js.append(row_job(f, kinds[f], 1, acc=True))
        for f in ANYROW_FORMATS:
            js.append(row_job(f, kinds[f], 0, anyrow=True))
            js.append(row_job(f, kinds[f], 1, anyrow=True))
    return js


META_EXTRA = {
    "trusted_base": [
        "spec/spec_c10d.h: per-pixel fetch/store/frame statements as expression macros over ghost values (on top of spec_format.h); "
        "pre-state bound by `cell == ghost` in the precondition instead of __CPROVER_old",
        "harness/C10/c10d_row.c: contracts ct_fetch_scanline_<f> / ct_store_scanline_<f>; accessor build: memory-faithful "
        "read_func/write_func with displacement g_rowbytes over a decoy area",
        "goto-instrument --dfcc makes the ghost globals nondeterministic (checked by mutants that only show at g_k > 0 / odd x / "
        "a neighbour bit)",
    ],
    "assumptions": [
        "route-D scanline contracts: row y == 0 of an image whose row is <= 2^20 bytes (size symbolic, multiple of 4); the "
        ".anyrow jobs (6 formats): any row 0 <= y <= 32767, rowstride 0..32767 words; negative rowstride (bottom-up images) is "
        "covered by the width-bounded jobs of props/C10.py only",
        "route-D indexed formats: palette = one fresh object of sizeof (pixman_indexed_t) .. +64 bytes, disjoint from image memory",
        "route-D failures (loop_invariant_step / postcondition of an enforced contract) have no natively replayable input: they are "
        "reported with no-failing-input-found",
    ],
    "not_covered": [
        "route D: accessor build for formats other than " + ", ".join(ACC_FORMATS) + " (same macro text; the bounded .acc jobs cover the rest)",
        "route D: fetch_scanline_a8r8g8b8_sRGB / 10-bpc / float fetchers (not MAKE_ACCESSORS functions; float conversion inside the loop)",
    ],
}
META = {"level": "proof", "trusted_base": META_EXTRA["trusted_base"], "assumptions": META_EXTRA["assumptions"],
        "not_covered": META_EXTRA["not_covered"]}
