"""C17 — glyph cache is a faithful map under any history; glyph drawing is per-glyph (pixman-glyph.c)."""
from vdriver import Job

CHK = ["--pointer-check", "--bounds-check"]


def cache_jobs(bits, tmo, skip=()):
    """all cache jobs at table size 2^bits.  Every job: table contents, keys, hash values, MRU order, origins,
    freeze count fully symbolic under cache_wf (full domain in contents/keys = any history); BOUNDED in the
    table size only."""
    n = 1 << bits
    D = {"PIXMAN_VERIF_GLYPH_HASH_BITS": bits, "VG_HASH": 0}
    sfx = ".n%d" % n
    bound = "table size %d slots (hook PIXMAN_VERIF_GLYPH_HASH_BITS=%d; HIGH_WATER %d, LOW_WATER %d)" % (n, bits, n // 2, n // 4)
    dom = ("every cache state satisfying cache_wf (= any history), every 64+64-bit key, arbitrary hash function; "
           "table size %d" % n)
    stubs = ["pixman_image_create_bits / pixman_image_composite32 / pixman_image_unref / pixman_image_set_component_alpha / "
             "_pixman_image_validate are recording stubs (the jobs are about the table, not about image code)"]
    U = n + 2
    js = []

    def J(name, harness, functions, defines=None, assumptions=None, **kw):
        d = dict(D)
        d.update(defines or {})
        if name in skip:
            return
        js.append(Job(name + sfx, "C17/" + harness, defines=d, unwind=U, termination_by_unwind=True, kind="bounded", bound=bound, functions=functions,
                      domain=dom, cbmc_flags=CHK, timeout=tmo, assumptions=stubs + (assumptions or []), **kw))

    J("lookup", "lookup.c", ["pixman_glyph_cache_lookup", "lookup_glyph"], min_props=10)
    J("insert_glyph", "insert_glyph.c", ["insert_glyph"], min_props=10,
      assumptions=["insert_glyph: the key is not in the table yet (caller contract)"])
    J("api.insert", "api_insert.c", ["pixman_glyph_cache_insert", "insert_glyph"], defines={"VG_PART": 0}, min_props=20,
      assumptions=["pixman_glyph_cache_insert: the key is not in the cache yet (API usage: callers look up first)"])
    J("api.insert.keeps_null_slot", "api_insert.c", ["pixman_glyph_cache_insert", "insert_glyph"], defines={"VG_PART": 1}, min_props=1,
      assumptions=["pixman_glyph_cache_insert: the key is not in the cache yet (API usage: callers look up first)"])
    J("api.remove", "api_remove.c", ["pixman_glyph_cache_remove", "lookup_glyph", "remove_glyph", "free_glyph"], min_props=12)
    J("clear_table", "clear_table.c", ["clear_table", "free_glyph"], min_props=8)
    J("api.thaw", "api_thaw.c", ["pixman_glyph_cache_thaw", "clear_table", "remove_glyph", "free_glyph"], min_props=14,
      assumptions=["pixman_glyph_cache_thaw: freeze_count >= 1 (thaw pairs with an earlier freeze)"])
    J("lifecycle", "lifecycle.c", ["pixman_glyph_cache_create", "pixman_glyph_cache_freeze", "pixman_glyph_cache_destroy"], min_props=8,
      assumptions=["pixman_glyph_cache_freeze: freeze_count < INT_MAX"])
    js.append(Job("history.fill_then_lookup" + sfx, "C17/history.c", defines={"PIXMAN_VERIF_GLYPH_HASH_BITS": bits}, unwind=U, termination_by_unwind=True,
                  kind="bounded", bound=bound + "; one freeze, <= %d inserts of fresh keys, then one lookup" % n,
                  functions=["pixman_glyph_cache_create", "pixman_glyph_cache_freeze", "pixman_glyph_cache_insert",
                             "pixman_glyph_cache_lookup", "lookup_glyph", "insert_glyph", "hash"],
                  domain="histories create; freeze; insert x n (n <= %d, any fresh keys); lookup — REAL hash function" % n,
                  cbmc_flags=CHK, timeout=tmo, assumptions=stubs, min_props=4))
    return js


A_RANGE = ("glyph drawing: every coordinate of the request (src/mask/dest x,y, glyph positions, glyph origins) lies in [-2^29, 2^29], "
           "destination sizes in [0, 2^29] (the property's 'within int32 arithmetic range', same as C03); glyph images are at most 2^15 x 2^15")
A_GLYPH_IMG = ("glyph drawing: glyph images are validated BITS images as pixman_glyph_cache_insert creates them (no repeat): "
               "extended_format_code == bits.format, never PIXMAN_null; their size, format and flags are symbolic")
A_STUBS = ("glyph drawing: _pixman_implementation_lookup_composite is a recording stub returning a different recording routine for every "
           "lookup (which routine is right for (op, formats, flags) is C02; what it draws is C01); _pixman_image_validate is a no-op "
           "(flags / format codes are inputs = the state after validation, C14); global_implementation is a dummy object; "
           "pixman_image_create_solid_fill / pixman_image_unref / pixman_image_create_bits / pixman_image_set_component_alpha / "
           "pixman_image_composite32 are recording stubs")
A_REGION_CONTRACT = ("glyph drawing: _pixman_compute_composite_region32 replaced by its contract (FALSE, or TRUE with 1..2 arbitrary non-empty boxes "
                     "inside the destination bounds; what the region is, is C03 region.*)")
A_REGION_REAL = ("glyph drawing (end to end job): destination without clip or with one clip rectangle, no alpha maps, source without clip region "
                 "(the real _pixman_compute_composite_region32 and pixman-region32.c stay on their loop-free paths)")
A_MASK_IMG = ("add_glyphs: the mask image it accumulates into is the validated BITS image pixman_composite_glyphs has just created "
              "(extended_format_code == bits.format); its size, format and flags are symbolic")
DRAW_FLAGS = CHK + ["--signed-overflow-check", "--memory-leak-check"]


def drawing_jobs(tier):
    """the drawing half: per-glyph geometry of pixman_composite_glyphs_no_mask / add_glyphs / pixman_composite_glyphs against
    'what pixman_image_composite32 of that glyph would hand to the routine'; BOUNDED in the number of glyph entries.
    measured (5 idle cores): no_mask.g1.box2 120 s, no_mask.g2.box1 115-140 s, no_mask.g1.real_region 32 s, add_glyphs.g2 40 s,
    composite_glyphs.g1 8 s, get_extents 4 s, get_mask_format 1 s."""
    js = []

    def J(name, harness, ng, functions, domain, defines=None, assumptions=None, loops=None, **kw):
        d = {"VD_NG": ng, "PIXMAN_VERIF_GLYPH_HASH_BITS": 2}
        d.update(defines or {})
        kw.setdefault("timeout", 900)
        # the loops of the code under contract get exactly the iterations the bound allows + 1 (unwinding assertions are on:
        # a renamed/added loop falls back to the global bound, too small a bound is exit 2), harness loops the global bound
        us = ",".join(["%s:%d" % lk for lk in (loops or [])] + ["memcmp.0:72"])
        js.append(Job(name, "C17/" + harness, defines=d, kind="bounded", unwind=4,
                      bound="%d glyph entr%s in the request" % (ng, "y" if ng == 1 else "ies (the two may be the same glyph)"), functions=functions, domain=domain,
                      cbmc_flags=DRAW_FLAGS + ["--unwindset", us], assumptions=[A_RANGE, A_GLYPH_IMG] + (assumptions or []), **kw))

    F_NM = ["pixman_composite_glyphs_no_mask", "box32_intersect"]
    RS = ["repo:pixman/pixman-region32.c"]
    NM0, NM1 = "pixman_composite_glyphs_no_mask.0", "pixman_composite_glyphs_no_mask.1"     # .0 = clip-box loop, .1 = glyph loop
    J("no_mask.g1.box2", "no_mask.c", 1, F_NM, defines={"VD_NBOX": 2}, loops=[(NM0, 3), (NM1, 2)], extra_sources=RS,
      assumptions=[A_STUBS, A_REGION_CONTRACT], min_props=12,
      domain="0..1 glyph entry, every operator code, source/destination format codes and flags, glyph size <= 2^15, origin, position, "
             "composite region FALSE or 1..2 symbolic boxes")
    J("no_mask.g2.box1", "no_mask.c", 2, F_NM, defines={"VD_NBOX": 1}, loops=[(NM0, 2), (NM1, 3)], extra_sources=RS,
      assumptions=[A_STUBS, A_REGION_CONTRACT], min_props=12,
      domain="0..2 glyph entries (two glyph objects of different size/format/flags or the same object twice), one symbolic region box: "
             "order of the calls, routine looked up again when format or flags change")
    J("no_mask.g1.real_region", "no_mask.c", 1, F_NM + ["_pixman_compute_composite_region32", "clip_general_image", "pixman_region32_rectangles"],
      defines={"VD_REAL_REGION": 1}, loops=[(NM0, 2), (NM1, 2)], extra_sources=["repo:pixman/pixman.c"] + RS,
      assumptions=[A_STUBS, A_REGION_REAL], min_props=12,
      domain="end to end with the real composite-region code: 0..1 glyph entry, destination of symbolic size with no clip or one symbolic clip rectangle")
    J("add_glyphs.g2", "add_glyphs.c", 2, ["add_glyphs", "box32_intersect"], defines={"VD_ENTRY": 0}, loops=[("add_glyphs.0", 3)],
      assumptions=[A_STUBS, A_MASK_IMG], min_props=12,
      domain="0..2 glyph entries, each glyph of the mask's format (glyph is the source) or not (white solid source, glyph is the mask), "
             "mask image of symbolic size/format/flags, symbolic offsets, white image creation failing or not")
    J("composite_glyphs.g1", "add_glyphs.c", 1, ["pixman_composite_glyphs", "add_glyphs", "box32_intersect"], defines={"VD_ENTRY": 1},
      loops=[("add_glyphs.0", 2)], assumptions=[A_STUBS, A_MASK_IMG, "composite_glyphs.g1: the mask allocation succeeds (failure: composite_glyphs.frame)"], min_props=14,
      domain="pixman_composite_glyphs with 0..1 glyph entry: the glyph is accumulated at (x - origin_x - mask_x, y - origin_y - mask_y) into the "
             "mask created from the request, the mask is composited once afterwards")
    J("get_extents.g2", "glyph_info.c", 2, ["pixman_glyph_get_extents"], defines={"VD_PART": 0}, min_props=4, timeout=300,
      domain="0..2 glyph entries, symbolic positions/origins/sizes, ghost point anywhere")
    J("get_mask_format.g2", "glyph_info.c", 2, ["pixman_glyph_get_mask_format"], defines={"VD_PART": 1}, min_props=3, timeout=300,
      assumptions=["get_mask_format: glyph formats are formats of pixman.h (literal list)"],
      domain="0..2 glyph entries, every pair of pixman.h formats")
    return js


def jobs(tier):
    js = [Job("composite_glyphs.frame", "C17/composite_glyphs.c", kind="proof", unwind=2, functions=["pixman_composite_glyphs"],
              domain="every operator, every mask format of pixman.h, every offset and size, mask allocation failing or not, zero glyphs",
              timeout=600, min_props=4,
              assumptions=["composite_glyphs.frame: pixman_image_create_bits / set_component_alpha / composite32 / unref are recording stubs; "
                           "the accumulation of the glyphs into the mask (add_glyphs geometry) is NOT covered"]),
          Job("box32_intersect", "C17/box32.c", kind="proof", functions=["box32_intersect"], timeout=300, min_props=6,
              domain="all int32 box coordinates (also empty / inverted boxes), ghost point anywhere")]
    # measured (loaded 16-core box, 3-6 jobs in parallel): 4 slots 6-41 s per job; 8 slots: keeps_null_slot 110 s,
    # history 146 s, clear_table 316 s, lifecycle 374 s, insert_glyph 406 s, lookup 550 s, api.insert 762 s;
    # api.remove / api.thaw at 8 slots did not finish in 1440 s -> they stay at 4 slots (HIGH 2, LOW 1).
    js += drawing_jobs(tier)
    js += cache_jobs(2, 900)
    if tier != "quick":
        js += cache_jobs(3, 3600, skip=("api.remove", "api.thaw"))
    return js


META = {
    "level": "proof",
    "explanation": ("Inductive data-structure invariant cache_wf (harness/C17/gc.h) over the real pixman_glyph_cache_t: every operation is "
                    "checked from an arbitrary cache_wf state (all contents, keys, collision patterns, tombstone layouts, MRU orders), "
                    "so the statements hold after any history; the table SIZE is bounded (kind=bounded on every cache job). "
                    "box32_intersect is a full-domain proof.  Drawing half (harness/C17/gd.h): pixman_composite_glyphs_no_mask, add_glyphs and "
                    "pixman_composite_glyphs call the compositing routine themselves; with the lookup and the routine replaced by recorders, every "
                    "pixman_composite_info_t handed to the routine and the arguments of the lookup that chose it are compared with what "
                    "pixman_image_composite32 of that one glyph image at (x - origin_x, y - origin_y) hands over for the same clip box "
                    "(drawn rectangle = glyph box ∩ clip box, glyph sample origin = drawn origin - glyph position so that the forced COVER flag is "
                    "true, source origin moving with the destination, no call for an empty intersection; ADD of the glyph itself or of white IN glyph "
                    "into the mask at (-mask_x, -mask_y)); bounded in the number of glyph entries (<= 2) and clip boxes per glyph (<= 2), one job end "
                    "to end on the real composite-region code.  pixman_glyph_get_extents == union of the glyph boxes, "
                    "pixman_glyph_get_mask_format == literal decision table."),
    "trusted_base": ["C17: hash interception by token pasting (harness/C17/gc.h) leaves the three call sites of hash() and its definition textually intact"],
    "assumptions": [],
    "not_covered": [
        "table sizes above the bounded one (4 slots in the quick tier, 8 in the thorough tier; remove/thaw only at 4): the generalisation to HASH_SIZE 32768 is by parametricity of the code in HASH_SIZE and is stated, not proved",
        "glyph drawing with more than 2 glyph entries / more than 2 clip boxes per glyph (bounded jobs; the per-glyph loop body is the same for every entry)",
        "glyph drawing: which routine the lookup returns and what it draws (C02, C01): the jobs pin the interface (lookup arguments, composite info), not pixels",
    ],
}
