"""C17 — glyph cache is a faithful map under any history; glyph drawing is per-glyph (pixman-glyph.c)."""
from vdriver import Job

CHK = ["--pointer-check", "--bounds-check"]


def cache_jobs(bits, tmo, skip=()):
    """all cache jobs at table size 2^bits.  Every job: table contents, keys, hash values, MRU order, origins,
    freeze count fully symbolic under cache_wf (full domain in contents/keys = any history); BOUNDED in the
    table size only."""
    n = 1 << bits
    D = {"PIXMAN_VERIF_GLYPH_HASH_BITS": bits, "VG_HASH": 0}
    sfx = ".n%d" % n
    bound = "table size %d slots (hook PIXMAN_VERIF_GLYPH_HASH_BITS=%d; HIGH_WATER %d, LOW_WATER %d)" % (n, bits, n // 2, n // 4)
    dom = ("every cache state satisfying cache_wf (= any history), every 64+64-bit key, arbitrary hash function; "
           "table size %d" % n)
    stubs = ["pixman_image_create_bits / pixman_image_composite32 / pixman_image_unref / pixman_image_set_component_alpha / "
             "_pixman_image_validate are recording stubs (the jobs are about the table, not about image code)"]
    U = n + 2
    js = []

    def J(name, harness, functions, defines=None, assumptions=None, **kw):
        d = dict(D)
        d.update(defines or {})
        if name in skip:
            return
        js.append(Job(name + sfx, "C17/" + harness, defines=d, unwind=U, termination_by_unwind=True, kind="bounded", bound=bound, functions=functions,
                      domain=dom, cbmc_flags=CHK, timeout=tmo, assumptions=stubs + (assumptions or []), **kw))

    J("lookup", "lookup.c", ["pixman_glyph_cache_lookup", "lookup_glyph"], min_props=10)
    J("insert_glyph", "insert_glyph.c", ["insert_glyph"], min_props=10,
      assumptions=["insert_glyph: the key is not in the table yet (caller contract)"])
    J("api.insert", "api_insert.c", ["pixman_glyph_cache_insert", "insert_glyph"], defines={"VG_PART": 0}, min_props=20,
      assumptions=["pixman_glyph_cache_insert: the key is not in the cache yet (API usage: callers look up first)"])
    J("api.insert.keeps_null_slot", "api_insert.c", ["pixman_glyph_cache_insert", "insert_glyph"], defines={"VG_PART": 1}, min_props=1,
      assumptions=["pixman_glyph_cache_insert: the key is not in the cache yet (API usage: callers look up first)"])
    J("api.remove", "api_remove.c", ["pixman_glyph_cache_remove", "lookup_glyph", "remove_glyph", "free_glyph"], min_props=12)
    J("clear_table", "clear_table.c", ["clear_table", "free_glyph"], min_props=8)
    J("api.thaw", "api_thaw.c", ["pixman_glyph_cache_thaw", "clear_table", "remove_glyph", "free_glyph"], min_props=14,
      assumptions=["pixman_glyph_cache_thaw: freeze_count >= 1 (thaw pairs with an earlier freeze)"])
    J("lifecycle", "lifecycle.c", ["pixman_glyph_cache_create", "pixman_glyph_cache_freeze", "pixman_glyph_cache_destroy"], min_props=8,
      assumptions=["pixman_glyph_cache_freeze: freeze_count < INT_MAX"])
    js.append(Job("history.fill_then_lookup" + sfx, "C17/history.c", defines={"PIXMAN_VERIF_GLYPH_HASH_BITS": bits}, unwind=U, termination_by_unwind=True,
                  kind="bounded", bound=bound + "; one freeze, <= %d inserts of fresh keys, then one lookup" % n,
                  functions=["pixman_glyph_cache_create", "pixman_glyph_cache_freeze", "pixman_glyph_cache_insert",
                             "pixman_glyph_cache_lookup", "lookup_glyph", "insert_glyph", "hash"],
                  domain="histories create; freeze; insert x n (n <= %d, any fresh keys); lookup — REAL hash function" % n,
                  cbmc_flags=CHK, timeout=tmo, assumptions=stubs, min_props=4))
    return js


def jobs(tier):
    js = [Job("composite_glyphs.frame", "C17/composite_glyphs.c", kind="proof", unwind=2, functions=["pixman_composite_glyphs"],
              domain="every operator, every mask format of pixman.h, every offset and size, mask allocation failing or not, zero glyphs",
              timeout=600, min_props=4,
              assumptions=["composite_glyphs.frame: pixman_image_create_bits / set_component_alpha / composite32 / unref are recording stubs; "
                           "the accumulation of the glyphs into the mask (add_glyphs geometry) is NOT covered"]),
          Job("box32_intersect", "C17/box32.c", kind="proof", functions=["box32_intersect"], timeout=300, min_props=6,
              domain="all int32 box coordinates (also empty / inverted boxes), ghost point anywhere")]
    # measured (loaded 16-core box, 3-6 jobs in parallel): 4 slots 6-41 s per job; 8 slots: keeps_null_slot 110 s,
    # history 146 s, clear_table 316 s, lifecycle 374 s, insert_glyph 406 s, lookup 550 s, api.insert 762 s;
    # api.remove / api.thaw at 8 slots did not finish in 1440 s -> they stay at 4 slots (HIGH 2, LOW 1).
    js += cache_jobs(2, 900)
    if tier != "quick":
        js += cache_jobs(3, 3600, skip=("api.remove", "api.thaw"))
    return js


META = {
    "level": "proof",
    "explanation": ("Inductive data-structure invariant cache_wf (harness/C17/gc.h) over the real pixman_glyph_cache_t: every operation is "
                    "checked from an arbitrary cache_wf state (all contents, keys, collision patterns, tombstone layouts, MRU orders), "
                    "so the statements hold after any history; the table SIZE is bounded (kind=bounded on every cache job). "
                    "box32_intersect is a full-domain proof."),
    "trusted_base": ["C17: hash interception by token pasting (harness/C17/gc.h) leaves the three call sites of hash() and its definition textually intact"],
    "assumptions": [],
    "not_covered": [
        "table sizes above the bounded one (4 slots in the quick tier, 8 in the thorough tier; remove/thaw only at 4): the generalisation to HASH_SIZE 32768 is by parametricity of the code in HASH_SIZE and is stated, not proved",
        "pixman_composite_glyphs_no_mask / add_glyphs / pixman_composite_glyphs per-glyph geometry and ADD-accumulation (only box32_intersect of the drawing half is under contract)",
        "pixman_glyph_get_extents, pixman_glyph_get_mask_format",
    ],
}
