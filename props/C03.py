"""C03 — drawing touches only the composite region; that region is the exact intersection.

(1) region.*      _pixman_compute_composite_region32 / clip_general_image / clip_source_image on the real
                  pixman-region32.c, one job per flag case, ghost point.
(2) dispatch.*    the per-box dispatch loop of pixman_image_composite32 (recording `func`).
(3) composite32.* obligations that live in pixman_image_composite32 but belong to C01/C09: pixbuf special
                  case, IS_OPAQUE promotion, opaque-mask elision.
"""
from vdriver import Job, ext_jobs, ext_meta

RANGE = ("composite region: every coordinate of the request (src/mask/dest x,y, width, height), every clip rectangle "
         "coordinate, alpha-map origin and image size lies in [-2^29, 2^29] (the property's 'within int32 arithmetic range')")
A_REGION = [
    RANGE,
    "composite region: clip regions are a single rectangle or the empty region (multi-rectangle clips leave the in-line path "
    "of clip_general_image and go through pixman_region32_translate/intersect -> pixman_op: C05/C07 jobs)",
    "composite region: alpha maps carry no clip region of their own (the property statement names the alpha-map bounds only; "
    "the code's handling of an alpha-map clip, translated by -alpha_origin, is outside the statement)",
    "composite region: image sizes are not negative (images described truthfully)",
]
F_REGION = ["_pixman_compute_composite_region32", "clip_general_image", "clip_source_image",
            "pixman_region32_intersect_rect", "pixman_region32_intersect", "pixman_region32_not_empty",
            "pixman_region32_n_rects", "pixman_region32_rectangles", "pixman_region32_init"]


def region_jobs(tier):
    js = []
    for dclip in (0, 1):
        for dalpha in (0, 1):
            for src in (0, 1):
                for mask in (0, 1, 2):
                    if tier == "quick" and (src, mask) in ((1, 0), (0, 1)):
                        continue   # quick: 16 of the 24 flag cases (every flag still occurs set and cleared)
                    name = "region.dclip%d.dalpha%d.src%d.mask%d" % (dclip, dalpha, src, mask)
                    js.append(Job(name, "C03/region.c",
                                  defines={"VC_DCLIP": dclip, "VC_DALPHA": dalpha, "VC_SRC": src, "VC_MASK": mask},
                                  kind="proof", unwind=3, functions=F_REGION, assumptions=A_REGION, timeout=900, min_props=6,
                                  domain="dest clip %s, dest alpha map %s, source clip %s, mask %s; every request/clip/origin "
                                         "coordinate in +-2^29, clip shapes {one rectangle, empty}, the not-enabling flags and the "
                                         "source/mask alpha maps symbolic; ghost point anywhere in int32^2; pixman_op asserted unreachable"
                                         % (("absent", "present")[dclip], ("absent", "present")[dalpha],
                                            ("not enabled", "enabled")[src], ("absent", "present, clip not enabled", "clip enabled")[mask])))
    js.append(Job("region.zero_size_dest_alpha_map", "C03/region.c", defines={"VC_AMAP_DEGENERATE": 1, "VC_DALPHA": 1},
                  kind="proof", unwind=3, functions=F_REGION, assumptions=A_REGION, timeout=900, min_props=6,
                  domain="destination alpha map of zero width or height (legal object), everything else symbolic: the intersection "
                         "is empty, the function must return FALSE"))
    # (lead) clip regions carried by the alpha map of the source / of the mask (seeds C03-1, C03-4)
    for who, code in (("src", 1), ("mask", 2)):
        js.append(Job("region.amapclip.%s" % who, "C03/region.c", defines={"VC_AMAPCLIP": code, "VC_DCLIP": 0, "VC_DALPHA": 0},
                      kind="proof", unwind=3, functions=F_REGION, timeout=900, min_props=6,
                      assumptions=[a for a in A_REGION if "alpha maps carry no clip" not in a] + [
                          "alpha-map clip jobs: request coordinates, alpha origins and the alpha-map clip lie in [-2^27, 2^27]; destination without "
                          "clip and alpha map (those constraints are the other region.* jobs)",
                          "reading of the property for an alpha map's clip: it is a clip of the image it belongs to, positioned by that image's "
                          "alpha origin (alpha-map pixel (0,0) <-> image pixel (origin_x, origin_y), as for the destination alpha-map bounds); for the "
                          "mask only the case 'mask has a clip region of its own' is specified (the code ignores the alpha-map clip otherwise)"],
                      domain="the %s has an alpha map whose clip region (one rectangle or empty) is enabled for sources; everything else as in "
                             "region.*: p in region <=> p in S, S including p - (dest - %s_xy + %s alpha origin) in the alpha map's clip" % (who, who, who)))
    # (lead) the multi-rectangle branch of clip_general_image: call protocol + frame with translate/intersect as recording stubs
    js.append(Job("region.multi.protocol", "C03/region_multi.c", defines={"VM_CHECKS": 1}, kind="proof", unwind=6, functions=F_REGION, timeout=900, min_props=6,
                  assumptions=["multi-rectangle clips: pixman_region32_translate / pixman_region32_intersect replaced by recording contract stubs (their "
                               "own contracts: C07 translate.*, C05 *.intersect.*); request coordinates and alpha origins in [-2^27, 2^27]; the "
                               "destination alpha map carries no clip region (outside the property statement)"],
                  domain="every combination of enabled/disabled destination, source, source-alpha-map, mask and mask-alpha-map clips (2-rectangle regions), "
                         "every request geometry and alpha origin, failure of any one intersect call: each enabled clip is intersected exactly once with "
                         "the composite region moved, relative to the clip, by minus the image's offset in destination space (the frame half of "
                         "this harness is C16's job region.multi.frame)"))
    if tier != "quick":
        js.append(Job("region.all_flags_symbolic", "C03/region.c", defines={}, kind="proof", unwind=3, functions=F_REGION,
                      assumptions=A_REGION, timeout=3600, min_props=6,
                      domain="the same obligation with every flag symbolic in ONE query (cross-check of the case split)"))
    return js


A_INFO = ("composite32: flags / extended_format_code of source and mask are those compute_image_info leaves (C09 info.*, C14): "
          "ID_TRANSFORM set <=> no transform matrix; non-BITS image => code solid/unknown; BITS image => code == bits.format, a real format with non-zero bpp field "
          "(or solid for a 1x1 repeating image); the operator is a valid operator code")
A_CONTRACT = ("composite32: _pixman_compute_composite_region32 replaced by its contract (FALSE, or TRUE with non-empty boxes inside "
              "request ∩ destination bounds; proved by region.* for <= 1-rectangle clips); analyze_extent replaced by its frame "
              "contract (NULL image -> TRUE, otherwise any result and flags |= subset of the two COVER_CLIP bits; proved by C04 extent.*)")
F_C32 = ["pixman_image_composite32", "optimize_operator", "pixman_region32_extents", "pixman_region32_rectangles",
         "pixman_region32_fini", "pixman_region32_init"]
LEAK = ["--memory-leak-check"]


def dispatch_jobs(tier):
    js = []
    nb = 2 if tier == "quick" else 3
    js.append(Job("dispatch.boxes", "C03/dispatch.c",
                  defines={"VC_CHECK": 0, "VC_REGION_MODE": 0, "VC_AE_MODE": 0, "VC_NBOX": nb}, unwind=nb + 2, cbmc_flags=LEAK,
                  kind="bounded", bound="composite region of <= %d boxes" % nb, functions=F_C32,
                  assumptions=[RANGE, A_INFO, A_CONTRACT], timeout=900, min_props=10,
                  domain="every request, operator, image type/flags/format, symbolic boxes: exactly one call of the chosen routine per box, "
                         "its rectangle is the box, source/mask origins are box.x1 + src_x - dest_x (long arithmetic), images/flags/operator "
                         "are those looked up; region FALSE or analyze_extent FALSE => no call"))
    js.append(Job("dispatch.boxes.real_analyze_extent", "C03/dispatch.c",
                  defines={"VC_CHECK": 0, "VC_REGION_MODE": 0, "VC_AE_MODE": 1, "VC_NBOX": 2}, unwind=4, cbmc_flags=LEAK,
                  kind="bounded", bound="composite region of <= 2 boxes", functions=F_C32 + ["analyze_extent", "compute_transformed_extents"],
                  assumptions=[RANGE, A_INFO, A_CONTRACT.split(";")[0], "dispatch with the real analyze_extent: source and mask without transform matrix, non-convolution filters"],
                  timeout=900, min_props=10,
                  domain="the same with the real analyze_extent/compute_transformed_extents for identity images"))
    cases = [(1, 1, 1, 2), (0, 0, 0, 0)] if tier == "quick" else [(d, a, s, m) for d in (0, 1) for a in (0, 1) for s in (0, 1) for m in (0, 2)]
    for d, a, s, m in cases:
        js.append(Job("dispatch.e2e.dclip%d.dalpha%d.src%d.mask%d" % (d, a, s, m), "C03/dispatch.c",
                      defines={"VC_CHECK": 5, "VC_REGION_MODE": 1, "VC_AE_MODE": 0, "VC_NBOX": 1,
                               "VC_DCLIP": d, "VC_DALPHA": a, "VC_SRC": s, "VC_MASK": m}, unwind=6, cbmc_flags=LEAK,
                      kind="proof", functions=F_C32 + F_REGION, assumptions=A_REGION + [A_INFO, A_CONTRACT.split(";")[1].strip()],
                      timeout=1200, min_props=10,
                      domain="pixman_image_composite32 with the REAL composite-region code, single-rectangle clips: ghost point p is inside a "
                             "rectangle handed to the chosen routine <=> p in S (request ∩ bounds ∩ enabled clips ∩ alpha-map box), unless "
                             "analyze_extent refuses the request (then no call)"))
    return js


def composite32_jobs(tier):
    js = []
    base = {"VC_REGION_MODE": 0, "VC_AE_MODE": 0, "VC_NBOX": 1}
    dom = ("every operator, request, image type, flag word, format code, repeat, transform presence, storage pointer (2 buffers), "
           "size/stride of source and mask; region contract with one box (the obligations concern the straight-line code before the box loop)")
    for name, chk, what in (
            ("composite32.pixbuf", 1, "src/mask format replaced by PIXMAN_pixbuf/rpixbuf only if mask present, both BITS on the same bits "
                                      "pointer, same repeat, no transform on either, src_x==mask_x AND src_y==mask_y, x8b8g8r8/x8r8g8b8 colour "
                                      "+ a8r8g8b8/a8b8g8r8 mask; otherwise formats passed unchanged"),
            ("composite32.promote", 3, "IS_OPAQUE added to source (mask) flags only if SAMPLES_OPAQUE and (NEAREST_FILTER and "
                                       "COVER_CLIP_NEAREST, or BILINEAR_FILTER and COVER_CLIP_BILINEAR) in the flags handed to the lookup; "
                                       "all other flag bits unchanged"),
            ("composite32.mask", 4, "mask presented as PIXMAN_null only if absent or flagged IS_OPAQUE; a kept mask keeps its format")):
        d = dict(base)
        d["VC_CHECK"] = chk
        js.append(Job(name, "C03/dispatch.c", defines=d, unwind=6, cbmc_flags=LEAK, kind="proof", functions=["pixman_image_composite32"],
                      assumptions=[RANGE, A_INFO, A_CONTRACT], timeout=900, min_props=8, domain=what + "; " + dom))
    d = dict(base)
    d["VC_CHECK"] = 2
    js.append(Job("composite32.pixbuf.same_geometry", "C03/dispatch.c", defines=d, unwind=6, cbmc_flags=LEAK, kind="proof",
                  functions=["pixman_image_composite32"], assumptions=[RANGE, A_INFO, A_CONTRACT], timeout=900, min_props=6,
                  domain="pixbuf presentation => source and mask have the same rowstride, width and height (needed for 'mask sample == "
                         "source sample for every pixel'; the code compares the bits pointer only); " + dom))
    return js


# extension modules merged into this property's job list (vdriver.ext_jobs / ext_meta)
EXT = [
    # the vertical clamps of the trapezoid rasterisers: rows handed to rasterize_edges lie inside the destination (seed C03-5)
    ("C12", lambda n: n.startswith("trap.")),
]


def jobs(tier):
    js = []
    js += region_jobs(tier)
    js += dispatch_jobs(tier)
    js += composite32_jobs(tier)
    return js + ext_jobs(tier, EXT)


META = {
    "level": "proof",
    "trusted_base": ["spec/spec_region.h: point membership / canonical form as written from the property text",
                     "harness/C03/scene_spec.inc: the set S of the property statement, on the inputs, in long arithmetic"],
    "assumptions": [
        "pixman_op (band sweep) is asserted unreachable in every region/dispatch job (obligation pixman_op.unreachable), as is the multi-rectangle branch of clip_general_image: both hold for clips of <= 1 rectangle",
        "the routines chosen by the lookup write only inside the rectangle they are handed: proved only for the routines under contract in C01/C02/C19 (surroundings)",
    ],
    "not_covered": [
        "multi-rectangle clips (pixman_region32_translate/intersect -> pixman_op): C05/C07",
        "alpha-map clip regions (translated by -alpha_origin in the code; outside the property statement)",
        "pixman_compute_composite_region (16-bit API wrapper): region16 conversion is C05 conv.*",
        "store frame for 1/4/24 bpp (C10 store_scanline.*), pixman_image_fill_boxes (C19 boxes.*), rasterize_edges clamps (C12), glyph compositing (C17)",
    ],
}
META = ext_meta(META, EXT)
