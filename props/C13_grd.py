"""C13 (extension `grd`) — gradient walker pixel functions, linear projection parameter, radial root selection.

Adds to props/C13.py (integer / safety half) the geometric-parameter and interpolation code:
  A  walker.seg.* / walker.colour.*   pixman_gradient_walker_pixel_32 / _float for ANY cached walker state
  B  linear.t.*                        the 48.16 parameter linear_get_scanline hands to the walker == projection onto p1-p2
  C  radial.t.*                        the parameter radial_get_scanline hands over solves the two-circle equation, is the
                                       larger admissible root; no admissible root => transparent
Grid jobs (float/double arithmetic) are `bounded` with the grid as the bound; what stays undecided is in META_EXTRA."""
from vdriver import Job

REP = [(0, "none"), (1, "normal"), (2, "pad"), (3, "reflect")]
A_POS = "walker.seg.*: |t| < 2^47 for the parameter and the earlier (history) parameter (48.16 nominal range; the code's own `pos - x`)"
A_SORT = "walker.*: stop positions non-decreasing in [0, 65536] (the colour claim's domain in the property)"
A_HIST = ("walker.*: 'any cached state' = fresh after _pixman_gradient_walker_init, or the state left by the real "
          "gradient_walker_reset at an arbitrary earlier parameter")
WALKER_GRID = ("stop positions multiples of 1/4 (non-decreasing, hard stops included); alpha and the checked channel of each stop in "
               "{0, 0x8000, 0xffff}; t a multiple of 1/8 in [-1.0, 2.0]")


def walker_jobs(tier):
    thorough = tier != "quick"
    js = []
    for code, name in REP:
        for wide in (0, 1):
            for n in ((2, 3) if thorough else (2,)):
                js.append(Job("walker.seg.%s.%s.n%d" % ("float" if wide else "32", name, n), "C13/grd_walker.c",
                              defines={"VC_REPEAT": code, "VC_N": n, "VC_WIDE": wide, "VC_PART": 0},
                              kind="bounded", bound="%d stops" % n, unwind=n + 4, cbmc_flags=["--slice-formula"], timeout=900,
                              min_props=100,
                              functions=["pixman_gradient_walker_pixel_float" if wide else "pixman_gradient_walker_pixel_32",
                                         "gradient_walker_reset", "_pixman_gradient_walker_init"],
                              domain="any non-decreasing stop positions in [0,1], any colours, any 48.16 t, any cached walker state "
                                     "(fresh or reset at any earlier t0); repeat " + name,
                              assumptions=[A_POS, A_SORT, A_HIST]))
    # colour: grid domain, one channel per query.  Measured 30 s (normal) .. 220 s (pad, float) each.
    for code, name in REP:
        for wide in (0, 1):
            for ch in (0, 1, 2, 3):
                if not thorough and not (code == 1 and ch == 1):
                    continue
                if ch in (2, 3) and code != 1:
                    continue
                d = {"VC_REPEAT": code, "VC_N": 2, "VC_WIDE": wide, "VC_PART": 1, "VC_CH": ch, "VC_FRESH": 1}
                if not thorough:        # quick tier: the two stop positions concrete (1/4, 3/4): 50 s instead of 30-220 s
                    d.update({"VC_X0": "0x4000", "VC_X1": "0xc000"})
                grid = WALKER_GRID if thorough else WALKER_GRID.replace("stop positions multiples of 1/4 (non-decreasing, hard stops included)",
                                                                         "stops at 1/4 and 3/4")
                js.append(Job("walker.colour.%s.%s.%s.ch%d" % ("float" if wide else "32", name, "n2" if thorough else "x25_75", ch),
                              "C13/grd_walker.c", defines=d,
                              kind="bounded", bound="2 stops; " + grid, unwind=6, timeout=1800, min_props=100,
                              functions=["pixman_gradient_walker_pixel_float" if wide else "pixman_gradient_walker_pixel_32",
                                         "gradient_walker_reset"],
                              domain="grid: " + grid + "; fresh walker; repeat %s, channel %d; tolerance: one 8-bit step (1.0 of 255 "
                                     "for the 8-bit walker, 1/255 for the float walker), as in the property; specification value an exact "
                                     "integer fraction, compared by cross-multiplication" % (name, ch),
                              assumptions=[A_SORT, "walker.colour.*: fresh walker (the cached path is covered by walker.seg.* on the full domain: "
                                                   "same segment => same coefficients)"]))
    return js


LIN_MODES = [(0, "identity"), (1, "affine"), (2, "projective")]
LIN_GRID = ("(p1, p2) one of 4 concrete pairs per query (GEOM 0: p1 = origin, d = (8,0); 1: p1 = (3.5,-2), d = (8,0); 2: p1 = (-1.25,4), "
            "d = (3,-5); 3: p1 = (2,1.5), d = (0,4.5)); m00,m11 in {1, 0.5, -1.5}; m01,m10 in {0, 0.25, -0.5}; m02,m12 in {0, 3, -7.5}; "
            "m22 in {1, 2, 0.5}; projective m20 in {1/64, -1/128}, m21 in {1/64, -1/128, 0}; x, y in {0, -7, 5, 12}; width 1..3")
LIN_SMALL = "; quick-tier sub-grid: m00 = 0.5, m11 in {1,0.5}; m01 = 0.25, m10 = -0.5, m02 = 3, m12 = -7.5; x in {0,-7}; y in {5,12}; width <= 2"
LIN_TOL = ("tolerance |t_code - 65536 t| <= 4 + ((1+|px|)|dx| + (1+|py|)|dy|) / (|W| |d|^2) units of 1/65536: twice the effect of pixman's "
           "16.16 rounding of the transformed point (X, Y, W each +-2^-17) on t, plus 4 units for the double->integer truncations")


def linear_jobs(tier):
    thorough = tier != "quick"
    js = []
    for mode, mname in LIN_MODES:
        for geom in (0, 1, 2, 3):
            small = not thorough
            if small and not (mode == 1 and geom == 2):
                continue
            if mode == 2 and geom != 1:           # projective queries: g1 takes ~8 min, g2 did not finish in 19 min: one geometry
                continue
            d = {"VC_MODE": mode, "VC_GEOM": geom}
            if small:
                d["VC_SMALL"] = 1
            js.append(Job("linear.t.%s.g%d%s" % (mname, geom, ".small" if small else ""), "C13/grd_linear.c", defines=d,
                          kind="bounded", bound="grid: " + LIN_GRID + (LIN_SMALL if small else ""), unwind=5, timeout=3600 if mode == 2 else 2400,
                          min_props=20,
                          extra_sources=["repo:pixman/pixman-matrix.c", "repo:pixman/pixman-gradient-walker.c"],
                          functions=["linear_get_scanline", "linear_get_scanline_narrow"],
                          domain="transform class " + mname + "; " + LIN_GRID + "; " + LIN_TOL,
                          assumptions=["linear.t.*: _pixman_gradient_walker_write_narrow / _fill_narrow replaced by recording stubs (the walker "
                                       "itself is the subject of walker.*); pixels whose homogeneous coordinate |W| < 1/1024 are outside the spec"]))
    return js


RAD_GEOMS = [(0, "concentric_r1_0"), (1, "cone_a_pos"), (2, "focal_on_circle_a_zero"), (3, "contained_a_neg"), (4, "tangent_a_zero")]
RAD_MODES = [(0, "identity"), (1, "affine"), (2, "general")]
RAD_GRID = ("circle pair concrete per query (concentric r1=0 r2=8 | (0,0) r4 -> (10,0) r1 | focal (4,0) r0 -> (0,0) r4, A == 0 | (1,1) r1 -> (3,2) r6 | "
            "(0,0) r5 -> (3,0) r2, A == 0); x, y in {0,-7,5,2,-3,9}; m00,m11 in {1,0.5,-1.5}; m01,m10 in {0,0.25}; m02,m12 in {0,3,-2.5}; "
            "general: m22 in {2,0.5}, m20,m21 in {0,1/64,-1/128}; width <= 2 (affine) / 1")
RAD_EXTRA = ["repo:pixman/pixman-matrix.c", "repo:pixman/pixman-gradient-walker.c", "repo:pixman/pixman-image.c",
             "repo:pixman/pixman-utils.c", "repo:pixman/pixman-region32.c"]


def radial_jobs(tier):
    thorough = tier != "quick"
    js = []
    for geom, gname in RAD_GEOMS:
        for rep, rname in ((0, "none"), (2, "extended")):
            for mode, mname in RAD_MODES:
                small = not thorough
                if small and not (mode == 0 and geom == 2 and rep == 0):
                    continue
                # sqrt queries take ~10 min each: transformed variants only for a cone (A > 0) and a tangent (A == 0) pair
                # measured 50 s (A == 0) .. 880 s; contained_a_neg.extended took 1450 s and is left out for the 25 min tier budget
                if mode == 0 and ((geom == 0 and rep == 2) or (geom == 4 and rep == 0) or (geom == 3 and rep == 2)):
                    continue
                # transformed variants (VC_MODE 1 affine forward differencing, 2 general/projective) exist in the harness but are
                # not in the job list: none of them finished within 29 min (symbolic 64-bit dot products + sqrt model)
                if mode != 0:
                    continue
                d = {"VC_GEOM": geom, "VC_REPEAT": rep, "VC_MODE": mode}
                if small:
                    d["VC_SMALL"] = 1
                js.append(Job("radial.t.%s.%s.%s%s" % (gname, rname, mname, ".small" if small else ""), "C13/grd_radial.c",
                              defines=d, kind="bounded", bound="grid: " + RAD_GRID + ("; quick-tier sub-grid: x, y in {0,-7,5}, width 1" if small else ""),
                              unwind=4, timeout=3600, min_props=20, extra_sources=RAD_EXTRA,
                              functions=["radial_get_scanline", "radial_write_color", "pixman_image_create_radial_gradient"],
                              domain="circles " + gname + ", repeat " + rname + ", transform " + mname + "; " + RAD_GRID +
                                     "; tolerances stated in harness/C13/grd_radial.c (residual of the equation scaled by the 1/65536 "
                                     "truncation of t and the 16.16 rounding of the transformed point; admissibility margins 2^-10)",
                              assumptions=["radial.t.*: _pixman_gradient_walker_write_narrow replaced by a recording stub; pixels with |W| < 1/16 "
                                           "outside the spec; sqrt: CBMC's library model (correctly rounded) in the proof, libm in the replay"]))
    return js


def horizontal_jobs(tier):
    return [Job("linear.is_horizontal.grid", "C13/grd_horizontal.c", kind="bounded",
                bound="grid: p2-p1 in {(64,0),(0,4.5),(3,-5),(8,0),(0,0)}, p1 = (2,-1.5); m00,m11 in {1,0.5,-1.5,0}; m01,m10 independently in "
                      "{0,0.5,-0.5,0.25}; m22 in {1,2,0.5}; m20,m21 in {0,1/64}; height in {1,4,100}; with / without transform",
                unwind=3, timeout=900, min_props=3, extra_sources=["repo:pixman/pixman-matrix.c", "repo:pixman/pixman-gradient-walker.c"],
                functions=["linear_gradient_is_horizontal"],
                domain="TRUE ==> |height * 65536 * ((p2-p1).(m01,m11)) / (w |p2-p1|^2)| < 1 (the 16.16 parameter changes by less than one unit "
                       "over the rows of the box), division-free in double with relative tolerance 1e-6; never TRUE for a projective last row "
                       "or coincident points; nothing demanded for FALSE",
                assumptions=["linear.is_horizontal.*: the predicate alone; that _pixman_linear_gradient_iter_init then reuses the first "
                             "scanline (noop iterator) is not under contract"])]


def jobs(tier):
    return walker_jobs(tier) + linear_jobs(tier) + horizontal_jobs(tier) + radial_jobs(tier)


META_EXTRA = {
    "trusted_base": [
        "spec/spec_grd.h: stop table, folding, half-open segment rule and the interpolation formula, written from the property text "
        "(exact integer fractions on the grid, compared by cross-multiplication)",
        "harness/C13/grd_linear.c, grd_radial.c: projection / two-circle equation evaluated in IEEE double inside the harness as the "
        "stand-in for real arithmetic on grid inputs; the tolerances and their justification are stated in the harness headers",
        "CBMC's library model of sqrt (radial.t.* with A != 0); the native replay uses libm",
    ],
    "assumptions": [
        A_SORT, A_HIST,
        "linear.t.* / radial.t.*: the walker's write/fill entry points are replaced by recording stubs (what the walker does with t is the "
        "subject of walker.*); the composition 'scanline function hands t to the walker, walker paints c(t)' is argued, not proved",
    ],
    "not_covered": [
        "real-valued accuracy for ALL inputs: every colour / projection / radial job is a GRID job (bounded); off the grid nothing is decided "
        "(full-domain float/double queries with a multiplication chain do not finish; even the grid queries take 0.5-10 min)",
        "colour accuracy far from the origin: gradient_walker_reset converts left_x/right_x to single precision, so for |t| of a few thousand "
        "periods under NORMAL/REFLECT the interpolation loses the 8-bit accuracy; the colour jobs stay in t in [-1, 2]",
        "the float walker returns values one ulp above 1.0 for opaque stops (inside the property's tolerance; observation, not an obligation)",
        "REFLECT, odd (mirrored) periods: at the exact mirror image of a hard stop (two stops at one position) the colour painted depends on "
        "the cached segment (scanning direction / masked-out pixels): both neighbouring segments are accepted (closed interval), the property "
        "does not pick one; observation only",
        "conical_get_scanline / coordinates_to_parameter: atan2 has no CBMC model and the parameter is nothing but atan2 + affine scaling: "
        "left out entirely (no non-transcendental part worth a job)",
        "radial under a transform (affine forward-differencing of b, c in radial_get_scanline; the per-pixel double path of the general / "
        "projective case): harness modes exist (grd_radial.c VC_MODE 1, 2) but no query finished within 29 min, so NOT in the job list: "
        "UNVERIFIED; only the untransformed scanline (width 1, which runs the affine branch without stepping) is decided",
        "radial: '<' vs '<=' at the exact ends t == 0, t == 1, r(t) == 0 of the admissible set (no grid pixel hits them exactly; margins 2^-10 "
        "around the admissible set are excluded from the larger-root / transparency obligations); |W| < 1/16 and singular transforms",
        "linear: pixels with |W| < 1/1024; _pixman_linear_gradient_iter_init's use of the is_horizontal verdict (noop iterator); "
        "the wide (float) scanline variants linear_get_scanline_wide / radial_get_scanline_wide (same generic function, other Bpp)",
        "walker.seg.*: more than 3 stops (lookup loop unrolled); walker.colour.*: 2 stops, fresh walker; gradient_property_changed beyond "
        "what props/C13.py sentinels.* already states",
    ],
}

META = {"level": "proof",
        "level_note": "extension of C13: walker.seg.* are integer obligations over the full parameter domain with the stop count capped (bounded: "
                      "2-3 stops); everything involving float/double arithmetic is decided on stated grids only (bounded)",
        "trusted_base": META_EXTRA["trusted_base"], "assumptions": META_EXTRA["assumptions"],
        "not_covered": META_EXTRA["not_covered"]}
