"""C12 (extension msc) -- pixman_edge_init against the infinite line, in both stepping directions (seed C12-1: the
backward step), with the known grid-hit finding narrowed to its exact input class.  Exposes jobs(tier) and the
extra meta dictionary for props/C12.py to merge; standalone: bin/check C12_msc."""
from vdriver import Job

ARITH = ["--signed-overflow-check", "--div-by-zero-check", "--conversion-check"]
A_DY = ("pixman_edge_init: DY = y_bot - y_top > 0 (end points ordered by y, no horizontal line: what pixman_line_fixed_edge_init / "
        "pixman_add_traps hand over for a valid trapezoid; with DY == 0 and y_start < y_top the exported function divides by zero, see report)")


def _line(nm, d, bits, part=0, form=0, timeout=900):
    sfx = {0: "", 1: ".x", 2: ".state"}[part] + (".direct" if form else "")
    return Job("edge.init.line.%s.b%d%s" % (nm, bits, sfx), "C12/msc_edge_init.c",
               defines={"VC_DIR": d, "VC_OBL": 0, "VC_BITS": bits, "VC_PART": part, "VC_FORM": form}, cbmc_flags=ARITH,
               kind="bounded", bound="|x_top|, |x_bot|, |y_top|, |y_bot|, |y_start| < 2^%d (reduced operand width of the products/divisions)" % bits,
               functions=["pixman_edge_init", "pixman_edge_step", "_pixman_edge_multi_init"],
               domain="any end points with y_top < y_bot, y_start %s y_top: x == line abscissa at y_start rounded down to the grid "
                      "(x in {X-1, X} at a grid hit of a line with DX >= 0)%s" % (">=" if d == 0 else "<", "" if part == 1 else ", -dy <= e <= 0, slope fields"),
               timeout=timeout, min_props=2 if part else 4, assumptions=[A_DY])


def jobs(tier):
    th = tier != "quick"
    js = []
    for d, nm in ((0, "fwd"), (1, "back")):
        if not th:
            js.append(_line(nm, d, 6, timeout=600))
        else:
            js.append(_line(nm, d, 8, timeout=900))
            js.append(_line(nm, d, 10, part=1, timeout=1800))
            js.append(_line(nm, d, 10, part=2, timeout=1200))
            js.append(_line(nm, d, 4, form=1, timeout=900))
        if not th:
            continue        # finding.* jobs FAIL on the pinned tree (known-findings lines in the report): thorough tier, like finding.trap.*
        fb = 10
        js.append(Job("finding.edge.init.%s.grid_hit" % nm, "C12/msc_edge_init.c", defines={"VC_DIR": d, "VC_OBL": 1, "VC_BITS": fb}, cbmc_flags=ARITH,
                      kind="bounded", bound="|coordinates| < 2^%d" % fb, functions=["pixman_edge_init", "pixman_edge_step"],
                      domain=("DX >= 0, line abscissa at y_start on the 16.16 grid, " +
                              ("y_start > y_top and DY does not divide DX" if d == 0 else "y_start < y_top")),
                      timeout=1200, min_props=1, assumptions=[A_DY]))
    return js


META_EXTRA = {
    "trusted_base": ["hand algebra in harness/C12/msc_edge_init.c: differential form of 'x is the line abscissa rounded down' "
                     "(machine cross-check: the .direct jobs at 4-bit coordinates)"],
    "assumptions": [A_DY],
    "not_covered": ["pixman_edge_init beyond 10-bit coordinates (64-bit products/divisions of symbolic operands)"],
}
META = {"level": "proof", "trusted_base": META_EXTRA["trusted_base"], "assumptions": META_EXTRA["assumptions"],
        "not_covered": META_EXTRA["not_covered"]}
