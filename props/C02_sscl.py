"""C02_sscl (C02 + C08 + C04, helper sscl) - the SCANLINE FUNCTIONS of the scaled fast paths under contract.

A scaled fast path = main loop macro (pixman-inlines.h, under contract in props/C08_scl.py with the scanline function replaced
by a contract stub) + scanline function.  Here the REAL scanline functions are decided against that stub's contract
(spec/spec_sscl.h) composed with the C01 per-channel operator spec (spec_op.h) and the C10 format codecs (spec_fst.h):

  sscl.bilin.*    scaled_bilinear_scanline_sse2_{8888_8888_SRC, x888_8888_SRC, 8888_8888_OVER, 8888_8_8888_OVER, 8888_n_8888_OVER}
                  (pixman-sse2.c; macros BILINEAR_DECLARE_VARIABLES, BILINEAR_INTERPOLATE_ONE_PIXEL / _FOUR_PIXELS,
                  BILINEAR_SKIP_ONE_PIXEL / _FOUR_PIXELS), harness/C02/sscl_bilinear.c
      kernel.*    one pixel (scalar head or tail loop), EVERY weight (wt, wb, 7-bit fraction), every pixel value
      row.*       head + 4-pixel body + tail at a fixed width / 16-byte phase / ghost pixel; row weights and the 16-bit fractions of
                  vx, unit_x fixed per query (with symbolic weights the row queries do not finish), integer parts of vx / unit_x
                  (which source words are read) symbolic, every pixel value and mask byte symbolic
      *.frame     C04: source rows / mask allocated exactly as long as the main loop's licence; destination outside the span unchanged
  sscl.nearest.*  scaled_nearest_scanline_sse2_8888_8888_OVER / _8888_n_8888_OVER (pixman-sse2.c) and the NORMAL-repeat instances of
                  FAST_NEAREST_SCANLINE (pixman-fast-path.c), harness/C02/sscl_nearest.c: the wrapped position convention of the
                  main loops, fully_transparent_src / zero_src hint, 2-pixel unrolled loop + tail, SSE2 head / body / tail
  sscl.models.selftest   native differential test of models/sse2_models_scale.h against the real instructions

Only jobs with a measured passing run on the unchanged tree are scheduled (MEASURED; C02_SSCL_UNMEASURED=1 schedules every
generated job for exploration).
"""
import os, re
from vdriver import Job, PyJob, VERIF, sh

SPOP = {"SRC": 1, "OVER": 3}
RL = ["harness/C02/replay_link.c"]
MODEL_TRUST = ["SSE2 / SSSE3 intrinsics: models/sse2_models_combine.h + models/sse2_models_scale.h (Intel SDM lane semantics; MOVQ load/store, "
               "PMADDUBSW, PABSW added) are trusted; native replay, models.selftest (C02) and sscl.models.selftest run the real instructions"]
A_WEIGHTS = ("sscl.bilin.*: precondition = what the main loops establish (C08_scl obligation c08.scanline_weights_*): 0 <= wt, wb < 128, wt + wb <= 128 "
             "(x888 source: wt + wb == 128, there is no NONE-repeat instance); every sample pair inside the source rows")
A_ZERO = "sscl.bilin.*: zero_src passed as 0 (the five functions ignore it or only use it to return early)"
A_FIXW = ("sscl.bilin.row.*: one (wt, wb) pair and one pair of 16-bit fractions (vx, unit_x) per query: "
          "the horizontal weight of pixel i is then a constant that differs from pixel to pixel; the integer parts of vx, unit_x are symbolic")

# tag: (function, mask kind 0 none / 1 a8 bytes / 2 solid, operator, spec mask mode, x888 source)
BIL = {
    "8888_8888_SRC":    ("scaled_bilinear_scanline_sse2_8888_8888_SRC", 0, "SRC", 0, 0),
    "x888_8888_SRC":    ("scaled_bilinear_scanline_sse2_x888_8888_SRC", 0, "SRC", 0, 1),
    "8888_8888_OVER":   ("scaled_bilinear_scanline_sse2_8888_8888_OVER", 0, "OVER", 0, 0),
    "8888_8_8888_OVER": ("scaled_bilinear_scanline_sse2_8888_8_8888_OVER", 1, "OVER", 1, 0),
    "8888_n_8888_OVER": ("scaled_bilinear_scanline_sse2_8888_n_8888_OVER", 2, "OVER", 1, 0),
}
MACROS = ["BILINEAR_DECLARE_VARIABLES", "BILINEAR_INTERPOLATE_ONE_PIXEL", "BILINEAR_INTERPOLATE_FOUR_PIXELS",
          "BILINEAR_SKIP_ONE_PIXEL", "BILINEAR_SKIP_FOUR_PIXELS"]
MC = {0: "mask bytes symbolic", 1: "first aligned group of 4 mask bytes zero (skip path), the others symbolic", 2: "every mask byte 0xff",
      3: "first aligned group of 4 mask bytes zero (skip path), every other mask byte 0xff"}
HU = ",".join("harness.%d:40" % i for i in range(16))
# (wt, wb, fractions): frac (vx) = 0x1234, frac (unit_x) = 0x2a80 -> weights 9, 30, 51, 73, 94, 115, 8, ... ; second set with weight-0 row
WSETS = {"a": (37, 91, "0x2a801234"), "b": (0, 64, "0xd5801e00"), "c": (64, 64, "0x0200fe00")}


def bil_job(tag, w, doff, k, ch, mcase=0, ws="a", ns=20, uxmax=2, timeout=1800):
    fn, maskk, op, mode, xsrc = BIL[tag]
    d = {"VC_FN": fn, "VC_MASKK": maskk, "VC_OP": SPOP[op], "VC_MODE": mode, "VC_XSRC": xsrc, "VC_CH": ch, "VC_W": w, "VC_DOFF": doff,
         "VC_K": k, "VC_MCASE": mcase, "VC_NS": ns, "VC_UXMAX": uxmax}
    if ch == 4:
        head = min((4 - doff) % 4, w)
        name = "sscl.bilin.row.%s.w%d.d%d%s.frame" % (tag, w, doff, ".m%d" % mcase if maskk == 1 else "")
        bound = ("width %d, destination phase %d (%d head pixel(s), %d vector bodies, %d tail pixel(s)), every weight, |unit_x| <= %d, source rows of %d words: "
                 "lowest sample pair at word 0, highest at word %d (rows exactly as long as the licence)%s"
                 % (w, doff, head, (w - head) // 4, (w - head) % 4, uxmax, ns, ns - 1, "; " + MC[mcase] if maskk == 1 else ""))
        asm = [A_WEIGHTS, A_ZERO]
    elif ws is None:
        name = "sscl.bilin.kernel.%s.%s.ch%d" % (tag, "head" if doff else "tail", ch)
        bound = "width 1 (%s loop), source rows of %d words; every weight, every pixel value" % ("scalar head" if doff else "scalar tail", ns)
        asm = [A_WEIGHTS, A_ZERO]
    else:
        wt, wb, frac = WSETS[ws]
        if xsrc and wt + wb != 128:
            return None
        d.update({"VC_WT": wt, "VC_WB": wb, "VC_FRAC": frac})
        head = min((4 - doff) % 4, w)
        name = "sscl.bilin.row.%s.w%d.d%d%s.%s.%s" % (tag, w, doff, ".m%d" % mcase if maskk == 1 else "", "k%d.w%s" % (k, ws) if ch < 4 else "w%s" % ws,
                                                   "ch%d" % ch if ch < 4 else "frame")
        bound = ("width %d, destination phase %d (%d head pixel(s), %d vector bodies, %d tail pixel(s))%s, row weights (%d, %d), fractions of vx / unit_x "
                 "0x%04x / 0x%04x, |unit_x| <= %d, source rows of %d words%s%s"
                 % (w, doff, head, (w - head) // 4, (w - head) % 4, ", ghost pixel %d" % k if ch < 4 else "", wt, wb, int(frac, 16) & 0xffff,
                    int(frac, 16) >> 16, uxmax, ns, "; " + MC[mcase] if maskk == 1 else "",
                    "; lowest sample pair at word 0, highest at word %d (rows exactly as long as the licence)" % (ns - 1) if ch == 4 else ""))
        asm = [A_WEIGHTS, A_ZERO, A_FIXW]
    dom = ("%s: every pixel value of both source rows, of the destination%s; %s"
           % (op + (" through an a8 mask" if maskk == 1 else " through a solid mask" if maskk == 2 else ""), ", every mask byte" if maskk == 1 and mcase == 0 else "",
              "channel %d of dst[k] == OP (bilinear sample of the 2x2 block at (vx + k unit_x) >> 16 with the 7-bit weights, mask, old dst[k])" % ch if ch < 4
              else "frame: words around dst[0..w), source rows, mask unchanged; no read outside the licensed words (exactly sized objects)"))
    return Job(name, "C02/sscl_bilinear.c", defines=d, unwind=4,
               cbmc_flags=["--unwindset", HU, "--pointer-check", "--bounds-check"] + (["--slice-formula"] if ch < 4 else []),
               kind="bounded", bound=bound, functions=[fn] + MACROS + ["_pixman_implementation_create_sse2"], extra_sources=RL, object_bits=10,
               domain=dom, assumptions=MODEL_TRUST + asm, timeout=timeout, min_props=2)


def bil_jobs():
    js = []
    # one-pixel kernels, every weight
    for tag, ch in (("8888_8888_SRC", 1), ("8888_8888_SRC", 3), ("x888_8888_SRC", 1), ("8888_8888_OVER", 3)):
        js.append(bil_job(tag, 1, 1, 0, ch, ws=None, ns=2, uxmax=1, timeout=3600))
    # rows: w 8, phase 3: 1 head pixel, one body, 3 tail pixels (SRC: pair + single)
    for tag, ks in (("8888_8888_SRC", ((2, 1, "a"), (7, 1, "b"), (6, 3, "c"))), ("8888_8888_OVER", ((0, 1, "a"), (3, 3, "b"), (6, 3, "c"))),
                    ("8888_n_8888_OVER", ((2, 1, "a"),)), ("x888_8888_SRC", ((5, 1, "a"),))):
        for k, ch, ws in ks:
            js.append(bil_job(tag, 8, 3, k, ch, ws=ws))
    js.append(bil_job("8888_8888_SRC", 8, 3, 0, 4, ns=8))
    js.append(bil_job("8888_8888_OVER", 8, 3, 0, 4, ns=8))
    # a8 mask: symbolic mask bytes, zero group (skip path; ghost pixel after the group), all 0xff
    t = "8888_8_8888_OVER"
    for k, ch, mc, ws in ((5, 1, 1, "a"), (2, 3, 0, "a"), (5, 3, 3, "a"), (2, 1, 2, "a")):
        js.append(bil_job(t, 6, 3, k, ch, mcase=mc, ws=ws, ns=16))
    for k, ch, mc, ws in ((4, 3, 3, "a"), (4, 1, 1, "a"), (4, 3, 0, "a")):
        js.append(bil_job(t, 5, 0, k, ch, mcase=mc, ws=ws, ns=8, uxmax=1))
    js.append(bil_job(t, 5, 0, 0, 4, mcase=0, ns=6, uxmax=1))
    js.append(bil_job(t, 6, 3, 0, 4, mcase=1, ns=8))
    return [j for j in js if j]


# ---- nearest: (name tag, function, sse2, solid mask, op, source format, destination format)
NEAR = [
    ("sse2_8888_8888_OVER", "scaled_nearest_scanline_sse2_8888_8888_OVER", 1, 0, "OVER", "a8r8g8b8", "a8r8g8b8"),
    ("sse2_8888_n_8888_OVER", "scaled_nearest_scanline_sse2_8888_n_8888_OVER", 1, 1, "OVER", "a8r8g8b8", "a8r8g8b8"),
    ("8888_8888_normal_OVER", "scaled_nearest_scanline_8888_8888_normal_OVER", 0, 0, "OVER", "a8r8g8b8", "a8r8g8b8"),
    ("8888_8888_normal_SRC", "scaled_nearest_scanline_8888_8888_normal_SRC", 0, 0, "SRC", "a8r8g8b8", "a8r8g8b8"),
    ("x888_8888_normal_SRC", "scaled_nearest_scanline_x888_8888_normal_SRC", 0, 0, "SRC", "x8r8g8b8", "a8r8g8b8"),
    ("8888_565_normal_OVER", "scaled_nearest_scanline_8888_565_normal_OVER", 0, 0, "OVER", "a8r8g8b8", "r5g6b5"),
    ("8888_565_normal_SRC", "scaled_nearest_scanline_8888_565_normal_SRC", 0, 0, "SRC", "a8r8g8b8", "r5g6b5"),
    ("565_565_normal_SRC", "scaled_nearest_scanline_565_565_normal_SRC", 0, 0, "SRC", "r5g6b5", "r5g6b5"),
]
A_NEAR = ("sscl.nearest.*: precondition = the main loops' convention (C08_scl obligations c04.nearest_normal_*): src = end of the row, "
          "-max_vx <= vx < 0, max_vx = width << 16 with width 8; NORMAL: 0 <= unit_x <= 2 max_vx; nowrap (COVER / PAD / NONE): the span stays below 0; "
          "with the fully_transparent_src / zero_src hint set every source pixel is 0")


def near_job(tag, w, doff, k, ch, nowrap=0, timeout=900):
    ent = [e for e in NEAR if e[0] == tag][0]
    _, fn, sse2, nmask, op, sfmt, dfmt = ent
    d = {"VC_SSE2": sse2, "VC_FN": fn, "VC_NMASK": nmask, "VC_OP": SPOP[op], "VC_MODE": 1 if nmask else 0, "VC_SFMT": sfmt, "VC_DFMT": dfmt,
         "VC_W": w, "VC_DOFF": doff, "VC_K": k, "VC_CH": ch, "VC_NOWRAP": nowrap}
    name = "sscl.nearest.%s.w%d%s%s.%s" % (tag, w, ".d%d" % doff if sse2 else "", ".nowrap" if nowrap else "",
                                          "frame" if ch == 4 else "k%d.ch%d" % (k, ch))
    if sse2:
        head = min((4 - doff) % 4, w)
        shape = "destination phase %d (%d head, %d bodies, %d tail)" % (doff, head, (w - head) // 4, (w - head) % 4)
    else:
        shape = "%d passes of the 2-pixel loop + %d tail pixel" % (w // 2, w % 2)
    # unwind 7: the wrap loop `while (vx >= 0) vx -= max_vx' runs at most 3 times for unit_x <= 2 max_vx; the slack keeps a change that
    # advances the position further a pixel failure instead of an unwinding failure (= undecided)
    return Job(name, "C02/sscl_nearest.c", defines=d, unwind=7, cbmc_flags=["--unwindset", HU, "--pointer-check", "--bounds-check"] +
               (["--slice-formula"] if ch != 4 else []), kind="bounded", extra_sources=RL, object_bits=10,
               bound="width %d, %s, source row of 8 pixels%s" % (w, shape, "" if ch == 4 else ", ghost pixel %d" % k),
               functions=[fn] + (["_pixman_implementation_create_sse2"] if sse2 else []),
               domain="%s %s -> %s%s: every start position and step of the %s convention, hint flag 0 / 1, every pixel value; %s"
                      % (op, sfmt, dfmt, " through a solid mask" if nmask else "", "COVER / PAD / NONE (no wrap)" if nowrap else "NORMAL (wrapped)",
                         "field of channel %d of dst[k] == NARROW (OP (WIDEN (src[wrapped (vx + k unit_x) >> 16]), mask, WIDEN (dst[k])))" % ch if ch < 4 else
                         "all defined bits of dst[k] == NARROW_PIX (WIDEN_PIX (sample))" if ch == 5 else
                         "frame: pixels around dst[0..w), source row, mask unchanged; no read outside the row [src - width, src) (exactly sized object)"),
               assumptions=[A_NEAR] + (MODEL_TRUST if sse2 else []), timeout=timeout, min_props=2)


def near_jobs():
    js = []
    t = "sse2_8888_8888_OVER"
    for k, ch in ((0, 1), (2, 1), (5, 1)):
        js.append(near_job(t, 6, 3, k, ch))
    js.append(near_job(t, 9, 0, 8, 3))
    js.append(near_job(t, 7, 3, 6, 1))
    js.append(near_job(t, 6, 3, 4, 1, nowrap=1))
    js.append(near_job(t, 6, 3, 0, 4))
    t = "sse2_8888_n_8888_OVER"
    for k, ch in ((2, 1), (5, 1)):
        js.append(near_job(t, 6, 3, k, ch))
    js.append(near_job(t, 7, 3, 6, 3))
    js.append(near_job(t, 6, 3, 0, 4))
    js.append(near_job("8888_8888_normal_OVER", 5, 0, 3, 1))
    js.append(near_job("8888_8888_normal_OVER", 5, 0, 4, 3))
    js.append(near_job("8888_8888_normal_OVER", 5, 0, 0, 4))
    js.append(near_job("8888_565_normal_OVER", 5, 0, 3, 1))
    for tag in ("8888_8888_normal_SRC", "x888_8888_normal_SRC", "8888_565_normal_SRC", "565_565_normal_SRC"):
        js.append(near_job(tag, 5, 0, 4, 5))
    js.append(near_job("565_565_normal_SRC", 5, 0, 0, 4))
    return js


def selftest_job():
    def fn(workdir):
        exe = os.path.join(workdir, "selftest")
        cmd = ["gcc", "-O1", "-w", "-msse2", "-mssse3", "-I" + os.path.join(VERIF, "models"),
               os.path.join(VERIF, "harness", "C02", "sscl_models_selftest.c"), "-o", exe]
        rc, out, err, _, _ = sh(cmd, timeout=120)
        if rc != 0:
            return [("sscl.models.selftest.builds", False, err[-300:])]
        rc, out, err, _, to = sh([exe], timeout=120)
        obl = [("sscl.models.selftest.builds", True, "")]
        for line in out.splitlines():
            m = re.match(r"(ok|FAIL) (\S+) (.*)", line)
            if m:
                obl.append(("sscl.models." + m.group(2) + ".equals_real_instruction", m.group(1) == "ok", m.group(3)))
        return obl
    return PyJob("sscl.models.selftest", fn, kind="bounded", bound="2*10^5 random + corner vectors per model, run natively",
                 functions=[], min_props=5, domain="C models of PMADDUBSW, PABSW, MOVQ load / store (models/sse2_models_scale.h) vs the real instruction", timeout=300)


# wall seconds of a passing run on the unchanged tree (shared machine, VERIF_JOBS=4)
MEASURED = {
    "sscl.bilin.row.8888_8888_OVER.w8.d3.frame": 86,
    "sscl.bilin.row.8888_8888_OVER.w8.d3.k0.wa.ch1": 117,
    "sscl.bilin.row.8888_8888_OVER.w8.d3.k3.wb.ch3": 38,
    "sscl.bilin.row.8888_8888_OVER.w8.d3.k6.wc.ch3": 53,
    "sscl.bilin.row.8888_8888_SRC.w8.d3.frame": 61,
    "sscl.bilin.row.8888_8888_SRC.w8.d3.k2.wa.ch1": 101,
    "sscl.bilin.row.8888_8888_SRC.w8.d3.k6.wc.ch3": 49,
    "sscl.bilin.row.8888_8888_SRC.w8.d3.k7.wb.ch1": 40,
    "sscl.bilin.row.8888_8_8888_OVER.w5.d0.m0.frame": 60,
    "sscl.bilin.row.8888_8_8888_OVER.w5.d0.m0.k4.wa.ch3": 100,
    "sscl.bilin.row.8888_8_8888_OVER.w5.d0.m1.k4.wa.ch1": 126,
    "sscl.bilin.row.8888_8_8888_OVER.w5.d0.m3.k4.wa.ch3": 108,
    "sscl.bilin.row.8888_8_8888_OVER.w6.d3.m0.k2.wa.ch3": 188,
    "sscl.bilin.row.8888_8_8888_OVER.w6.d3.m1.frame": 62,
    "sscl.bilin.row.8888_8_8888_OVER.w6.d3.m1.k5.wa.ch1": 162,
    "sscl.bilin.row.8888_8_8888_OVER.w6.d3.m2.k2.wa.ch1": 147,
    "sscl.bilin.row.8888_8_8888_OVER.w6.d3.m3.k5.wa.ch3": 130,
    "sscl.bilin.row.8888_n_8888_OVER.w8.d3.k2.wa.ch1": 277,
    "sscl.bilin.row.x888_8888_SRC.w8.d3.k5.wa.ch1": 82,
    "sscl.nearest.565_565_normal_SRC.w5.frame": 4,
    "sscl.nearest.565_565_normal_SRC.w5.k4.ch5": 4,
    "sscl.nearest.8888_565_normal_OVER.w5.k3.ch1": 10,
    "sscl.nearest.8888_565_normal_SRC.w5.k4.ch5": 4,
    "sscl.nearest.8888_8888_normal_OVER.w5.frame": 4,
    "sscl.nearest.8888_8888_normal_OVER.w5.k3.ch1": 14,
    "sscl.nearest.8888_8888_normal_OVER.w5.k4.ch3": 10,
    "sscl.nearest.8888_8888_normal_SRC.w5.k4.ch5": 4,
    "sscl.nearest.sse2_8888_8888_OVER.w6.d3.frame": 30,
    "sscl.nearest.sse2_8888_8888_OVER.w6.d3.k0.ch1": 35,
    "sscl.nearest.sse2_8888_8888_OVER.w6.d3.k2.ch1": 38,
    "sscl.nearest.sse2_8888_8888_OVER.w6.d3.k5.ch1": 36,
    "sscl.nearest.sse2_8888_8888_OVER.w6.d3.nowrap.k4.ch1": 40,
    "sscl.nearest.sse2_8888_8888_OVER.w7.d3.k6.ch1": 39,
    "sscl.nearest.sse2_8888_8888_OVER.w9.d0.k8.ch3": 33,
    "sscl.nearest.sse2_8888_n_8888_OVER.w6.d3.frame": 34,
    "sscl.nearest.sse2_8888_n_8888_OVER.w6.d3.k2.ch1": 127,
    "sscl.nearest.sse2_8888_n_8888_OVER.w7.d3.k6.ch3": 182,
    "sscl.nearest.x888_8888_normal_SRC.w5.k4.ch5": 5,
}
QUICK = {"sscl.bilin.row.8888_8_8888_OVER.w5.d0.m3.k4.wa.ch3",      # catches seeded change C02-4 (BILINEAR_SKIP_FOUR_PIXELS)
         "sscl.bilin.row.8888_8_8888_OVER.w5.d0.m0.frame",
         "sscl.nearest.sse2_8888_8888_OVER.w7.d3.k6.ch1",
         "sscl.nearest.8888_8888_normal_OVER.w5.k4.ch3"}


def jobs(tier):
    js = bil_jobs() + near_jobs()
    if os.environ.get("C02_SSCL_UNMEASURED") == "nokernel":
        js = [j for j in js if ".kernel." not in j.name]
    if not os.environ.get("C02_SSCL_UNMEASURED"):
        keep = []
        for j in js:
            if j.name in MEASURED:
                j.timeout = max(600, int(6 * MEASURED[j.name]))
                keep.append(j)
        js = keep
    if tier == "quick":
        js = [j for j in js if j.name in QUICK]
    js.append(selftest_job())
    return js


META_EXTRA = {
    "trusted_base": [
        "spec/spec_sscl.h: what a scanline function computes for its arguments (sample position vx + i unit_x, nearest word / 2x2 block with the "
        "7-bit weights, truncated weighted sum in units of 1/2^14), written from the property text C08 and the main-loop stub contract of C08_scl; "
        "the weighted sum is written with the column sums factored out (distributivity over the naturals, every term < 2^22)",
        "models/sse2_models_scale.h: Intel SDM semantics of MOVQ xmm,m64 / MOVQ m64,xmm (gcc's header text casts an 8-byte vector to long long, which "
        "CBMC 6.11 does not read as a bit reinterpretation), PMADDUBSW, PABSW; natively tested by sscl.models.selftest",
        "CBMC memory model: objects are 16-byte aligned (offset 0); natively aligned(16) buffers",
    ],
    "assumptions": [A_WEIGHTS, A_ZERO, A_FIXW, A_NEAR,
                    "sscl.*: one scanline per query, width <= 9, 16-byte phase of the destination and the ghost pixel fixed per query; |unit_x| <= 2 (bilinear)",
                    "sscl.bilin.*.frame: sample positions restricted to those whose lowest pair starts at word 0 and whose highest pair ends at the last word of the "
                    "exactly sized rows (a symbolic allocation size is not decided by CBMC 6.11 + external SAT solver)"],
    "not_covered": [
        "bilinear rows with SYMBOLIC weights (wt, wb, fractions): only the one-pixel kernels are decided for every weight; the row queries fix one weight set each",
        "ssse3_fetch_bilinear_cover / ssse3_fetch_horizontal (pixman-ssse3.c) and fast_fetch_bilinear_cover (pixman-fast-path.c): models for PMADDUBSW / PABSW "
        "are in place (models/sse2_models_scale.h, self-tested), no harness yet",
        "MMX scaled scanline functions (pixman-mmx.c)",
        "zero_src == 1 for the bilinear SSE2 functions (ignored by four of them; 8888_n_8888_OVER returns early)",
        "the COVER / NONE / PAD C nearest instances: props/C02.py nearest.* (helper fst)",
        "generated but NOT scheduled (no measured passing run): one-pixel bilinear kernels with symbolic weights (sscl.bilin.kernel.*: the SRC kernel's pixel obligation "
        "alone took 55 s, the full jobs were not measured), sscl.nearest.sse2_8888_n_8888_OVER.w6.d3.k5.ch1 (timeout 360 s at unwind 7; 155 s at unwind 4); "
        "C02_SSCL_UNMEASURED=1 schedules them",
    ],
}
META = {"level": "proof", "trusted_base": META_EXTRA["trusted_base"], "assumptions": META_EXTRA["assumptions"], "not_covered": META_EXTRA["not_covered"]}
