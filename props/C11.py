"""C11 — fixed-point transform arithmetic (pixman-matrix.c): exactly rounded, reports overflow, never aborts.

Plan of DESIGN.md §5 C11:
  * split-form exactness of the 48.16 entry points (proof) + no intermediate overflow (proof)
  * round-half-up lemma (proof) and distributivity (bounded) that turn split form into "the rational product rounded"
  * narrowing / FALSE logic of pixman_transform_point(_3d) at full width (proof)
  * helpers of the projective branch: shift/sign/clamp contracts (proof), quotient correctness (bounded)
  * never-abort of pixman_transform_point_31_16 for all inputs (proof attempt; own job)
  * multiply / scale / rotate / translate / bounds / predicates / float conversions

Back ends: obligations that equate two textually identical 64-bit multiplications (code vs spec in
the same operand split) are decided by z3 through cbmc's SMT2 interface (congruence closes them in
seconds; SAT does not terminate).  Overflow/abort obligations go to kissat.  The driver has no
"z3" solver option: SMT jobs use solver="cadical" plus "--z3" in cbmc_flags (cbmc then ignores the
SAT solver choice); the job note says so.
"""
from vdriver import Job

M = "pixman-matrix.c"
NOOVF = ["--no-signed-overflow-check"]


def smt(name, harness, **kw):
    """job decided by z3 (SMT2 back end of cbmc)"""
    flags = list(kw.pop("cbmc_flags", [])) + ["--z3"]
    note = kw.pop("note", "")
    return Job(name, harness, solver="cadical", cbmc_flags=flags,
               note=("back end: cbmc --z3 (SMT2 QF_AUFBV), not cadical. " + note).strip(), **kw)


def jobs(tier):
    js = []
    thorough = tier != "quick"

    # ------------------------------------------------------------------ split-form exactness
    FN = {0: "pixman_transform_point_31_16_affine", 1: "pixman_transform_point_31_16_3d",
          2: "pixman_transform_point_31_16", 3: "pixman_transform_point_31_16"}
    TAG = {0: "affine", 1: "3d", 2: "31_16.affine_matrix", 3: "31_16.zero_w"}
    DOM = {0: "any 16.16 matrix (rows 0,1 used), any x,y in [-2^46, 2^46)",
           1: "any 3x3 16.16 matrix, any x,y,w in [-2^46, 2^46)",
           2: "any affine 16.16 matrix (last row 0 0 1), w = 1, any x,y in [-2^46, 2^46)",
           3: "last row 0 0 0 (homogeneous coordinate 0), any x,y,w in [-2^46, 2^46)"}
    for fn in (0, 1, 2, 3):
        rows = (0, 1, 2) if fn == 1 else (0, 1)
        for row in rows:
            js.append(smt("split.%s.eq.row%d" % (TAG[fn], row), "C11/pt_split.c",
                          defines={"VC_FN": fn, "VC_MODE": 0, "VC_ROW": row}, unwind=4,
                          cbmc_flags=NOOVF, kind="proof", functions=[FN[fn]], domain=DOM[fn],
                          timeout=300, min_props=2,
                          note="result component == H + floor((L+2^15)/2^16) with H,L the split sums of the spec; "
                               "overflow obligations of the same call are in split.%s.noovf" % TAG[fn]))
        js.append(Job("split.%s.noovf" % TAG[fn], "C11/pt_split.c",
                      defines={"VC_FN": fn, "VC_MODE": 1}, unwind=4, kind="proof", functions=[FN[fn]],
                      domain=DOM[fn] + "; obligations: every signed overflow / shift / conversion / assert inside the real function",
                      timeout=600, min_props=10))

    # ------------------------------------------------------------------ never aborts (own jobs: known finding lives here)
    js.append(Job("abort.31_16.row2_only", "C11/pt_split.c", defines={"VC_FN": 5, "VC_MODE": 1}, unwind=4,
                  kind="bounded", bound="matrix rows 0 and 1 are zero (numerators 0); row 2 and the vector are unrestricted",
                  functions=["pixman_transform_point_31_16", "rounded_sdiv_128_by_49", "rounded_udiv_128_by_48"],
                  domain="row 2 any, x,y,w in [-2^46,2^46): internal asserts (div < 2^48), overflows, shifts, division by zero",
                  timeout=900, min_props=10))
    if thorough:
        js.append(Job("abort.31_16.full", "C11/pt_split.c", defines={"VC_FN": 4, "VC_MODE": 1}, unwind=4,
                      kind="proof",
                      functions=["pixman_transform_point_31_16", "rounded_sdiv_128_by_49", "rounded_udiv_128_by_48",
                                 "fixed_64_16_to_int128", "fixed_112_16_to_fixed_48_16", "count_leading_zeros"],
                      domain="any 3x3 matrix, x,y,w in [-2^46,2^46): internal asserts (div < 2^48), overflows, shifts, division by zero",
                      timeout=1500, min_props=10))

    # ------------------------------------------------------------------ narrowing / FALSE logic
    js.append(Job("narrow.point_3d", "C11/pt_narrow.c", defines={"VC_FN": 0}, replace=["pixman_transform_point_31_16_3d"],
                  kind="proof", functions=["pixman_transform_point_3d"], timeout=300, min_props=6,
                  domain="any 3x3 16.16 matrix x any int32 vector; 48.16 result of the callee = arbitrary ghost values",
                  note="callee pixman_transform_point_31_16_3d replaced by its contract (requires 31.16 inputs; ensures result == ghosts)"))
    js.append(Job("narrow.point", "C11/pt_narrow.c", defines={"VC_FN": 1}, replace=["pixman_transform_point_31_16"],
                  kind="proof", functions=["pixman_transform_point"], timeout=300, min_props=6,
                  domain="any 3x3 16.16 matrix x any int32 vector; 48.16 result and return value of the callee = arbitrary ghost values",
                  note="callee pixman_transform_point_31_16 replaced by its contract (requires 31.16 inputs; ensures result == ghosts)"))
    if thorough:
        js.append(smt("narrow.point.affine_end_to_end", "C11/pt_narrow.c", defines={"VC_FN": 2}, unwind=4, cbmc_flags=NOOVF,
                      kind="proof", functions=["pixman_transform_point"], timeout=900, min_props=5,
                      domain="any affine 16.16 matrix, w = 1, any int32 x,y; nothing abstracted"))

    # ------------------------------------------------------------------ helpers of the projective branch
    H = "C11/helpers.c"
    js.append(Job("helper.count_leading_zeros", H, defines={"VC_CASE": 0}, kind="proof", functions=["count_leading_zeros"],
                  domain="all x != 0 in 2^32", timeout=120, min_props=2,
                  assumptions=["count_leading_zeros: x != 0 (__builtin_clz(0) undefined; the only caller passes hi32divbits > 0, checked by abort.*)"]))
    js.append(Job("helper.fixed_64_16_to_int128", H, defines={"VC_CASE": 1}, kind="proof", functions=["fixed_64_16_to_int128"],
                  domain="|hi| <= 3*2^61, |lo| <= 3*2^47, scalebits in [-16,32] (the call-site domain)", timeout=400, min_props=2,
                  assumptions=["fixed_64_16_to_int128: operands within the call-site domain |hi| <= 3*2^61, |lo| <= 3*2^47, -16 <= scalebits <= 32"]))
    js.append(Job("helper.fixed_112_16_to_fixed_48_16", H, defines={"VC_CASE": 2}, kind="proof",
                  functions=["fixed_112_16_to_fixed_48_16"], domain="all (hi, lo) in 2^128, any flag", timeout=120, min_props=4))
    js.append(Job("helper.rounded_sdiv.sign_logic", H, defines={"VC_CASE": 3}, replace=["rounded_udiv_128_by_48"], kind="proof",
                  functions=["rounded_sdiv_128_by_49"], timeout=300, min_props=3,
                  domain="|N| < 2^126, 0 < |div| < 2^48; unsigned quotient = arbitrary ghost value",
                  note="callee rounded_udiv_128_by_48 replaced by its contract: requires (hi:lo, div) == (|N|, |div|) and div < 2^48; ensures result == ghosts",
                  assumptions=["rounded_sdiv_128_by_49: |N| < 2^126 and 0 < |div| < 2^48 (call sites: |N| < 2^97; |div| <= 2^48 - see finding on abort.*)"]))
    nb, db = (12, 6) if not thorough else (16, 8)   # measured: 7 s / 166 s; 20/10 bits: > 900 s
    js.append(Job("helper.rounded_udiv.quotient.bounded", H, defines={"VC_CASE": 4, "VC_NBITS": nb, "VC_DBITS": db}, kind="bounded",
                  bound="hi = 0, lo < 2^%d, div < 2^%d" % (nb, db), functions=["rounded_udiv_128_by_48"],
                  timeout=1000 if thorough else 300, min_props=1,   # measured 239 s / 9 s
                  domain="round-half-up quotient, reduced operand width"))
    js.append(Job("helper.rounded_sdiv.quotient.bounded", H, defines={"VC_CASE": 5, "VC_NBITS": nb, "VC_DBITS": db}, kind="bounded",
                  bound="|N| < 2^%d, |div| < 2^%d" % (nb, db), functions=["rounded_sdiv_128_by_49", "rounded_udiv_128_by_48"],
                  timeout=1800 if thorough else 300,   # measured 447 s / 27 s
                  min_props=2, domain="nearest, ties away from zero, reduced operand width"))

    # ------------------------------------------------------------------ multiply
    for al, tag in ((0, "distinct"), (1, "dst_is_l"), (2, "dst_is_r")):
        js.append(Job("multiply.range_and_value.%s" % tag, "C11/multiply.c", defines={"VC_CASE": 0, "VC_ALIAS": al}, unwind=4,
                      cbmc_flags=NOOVF, kind="proof", functions=["pixman_transform_multiply"], timeout=600, min_props=6,
                      note="signed-overflow obligations of the same call: job multiply.noovf",
                      domain="any two 3x3 16.16 matrices, any previous dst; per-term rounding as the code documents"))
    js.append(Job("multiply.noovf", "C11/multiply.c", defines={"VC_CASE": 2, "VC_ALIAS": 0}, unwind=4,
                  kind="proof", functions=["pixman_transform_multiply"], timeout=900, min_props=10,
                  domain="any two 3x3 matrices: every signed overflow / conversion check inside the real function"))
    js.append(Job("multiply.sum_rounding", "C11/multiply.c", defines={"VC_CASE": 1, "VC_ALIAS": 0}, unwind=4,
                  cbmc_flags=NOOVF, kind="proof", functions=["pixman_transform_multiply"], timeout=600, min_props=1,
                  domain="any two 3x3 matrices: entry [0][0] == round_half_up(exact sum of products / 2^16)",
                  note="the property's 'correctly rounded result' read literally; the code rounds each of the three terms (error up to 1.5 units)"))

    # ------------------------------------------------------------------ init_* / scale / rotate / translate
    B = "C11/build.c"
    js.append(Job("build.init.values", B, defines={"VC_FN": 3, "VC_DOM": 0}, unwind=4, kind="proof", timeout=300, min_props=4,
                  functions=["pixman_transform_init_identity", "pixman_transform_init_scale", "pixman_transform_init_rotate",
                             "pixman_transform_init_translate"],
                  domain="any parameters whose matrix is representable (init_rotate: -s representable), any previous content",
                  assumptions=["init_rotate: s != INT32_MIN in build.init.values (domain split; the point s == INT32_MIN is job build.init_rotate.unrepresentable)"]))
    js.append(Job("build.init_rotate.unrepresentable", B, defines={"VC_FN": 3, "VC_DOM": 1}, unwind=4, kind="proof", timeout=300,
                  functions=["pixman_transform_init_rotate"], min_props=1, domain="s == INT32_MIN (-s not representable)"))
    for fn, name in ((0, "scale"), (1, "rotate"), (2, "translate")):
        for d, dn in ((0, "forward"), (1, "reverse")):
            mk = smt if (fn, d) == (0, 1) else Job      # scale/reverse: 2^32/x in code and spec -> congruence (z3)
            js.append(mk("build.%s.%s.structure" % (name, dn), B, defines={"VC_FN": fn, "VC_DIR": d, "VC_DOM": 0}, unwind=4,
                          replace=["pixman_transform_multiply"], kind="proof", functions=["pixman_transform_" + name],
                          timeout=300, min_props=3,
                          domain="any matrix, any parameters whose factor matrix (spec, 64-bit) is representable in 16.16; product = ghost",
                          note="callee pixman_transform_multiply replaced by its contract: requires (dst,l,r) == the spec's operands; ensures ghost result",
                          assumptions=["%s/%s: factor matrix of the spec representable in 16.16 (domain split; the complement is job build.%s.%s.unrepresentable)" % (name, dn, name, dn)]))
    # complement of the domain split: factor not representable => FALSE (own jobs; real multiply, identity matrix; replayable)
    for fn, name, dirs in ((0, "scale", (1,)), (1, "rotate", (0, 1)), (2, "translate", (1,))):
        for d in dirs:
            dn = ("forward", "reverse")[d]
            js.append(Job("build.%s.%s.unrepresentable" % (name, dn), B, defines={"VC_FN": fn, "VC_DIR": d, "VC_DOM": 1}, unwind=4,
                          kind="bounded", bound="matrix fixed to the identity; all parameters whose factor is not representable",
                          functions=["pixman_transform_" + name], timeout=600, min_props=1,
                          domain="parameters with an unrepresentable factor matrix (trunc(2^32/sx) or -s or -tx outside int32): must return FALSE"))

    # ------------------------------------------------------------------ bounds
    for dom, dn in ((0, "in_range"), (1, "out_of_int16_range")):
        js.append(Job("bounds.abstract_point.%s" % dn, "C11/bounds.c", defines={"VC_REAL": 0, "VC_DOM": dom}, unwind=5,
                      replace=["pixman_transform_point"], kind="proof", functions=["pixman_transform_bounds"], timeout=600, min_props=8,
                      domain="any int16 box, any matrix; transformed corners = ghost table (function of the corner)",
                      note="callee pixman_transform_point replaced by its contract (requires: called on a corner of the spec with w=1)"))
        js.append(Job("bounds.translation.%s" % dn, "C11/bounds.c", defines={"VC_REAL": 1, "VC_DOM": dom}, unwind=5,
                      kind="bounded", bound="matrix restricted to translations (tx, ty any int32)", timeout=900, min_props=8,
                      functions=["pixman_transform_bounds", "pixman_transform_point"], domain="any int16 box, any translation; nothing abstracted"))

    # ------------------------------------------------------------------ predicates
    P = "C11/preds.c"
    MIDA = ["predicates: entries within (-2^30, 2^30) (domain split; the complement is pred.within_epsilon.full / pred.is_identity.extreme)"]
    js.append(Job("pred.within_epsilon.mid", P, defines={"VC_FN": 0, "VC_DOM": 0}, kind="proof", functions=["within_epsilon"],
                  timeout=120, min_props=1, domain="a, b in (-2^30, 2^30), any epsilon >= 0", assumptions=MIDA))
    js.append(Job("pred.within_epsilon.full", P, defines={"VC_FN": 0, "VC_DOM": 2}, kind="proof", functions=["within_epsilon"],
                  timeout=120, min_props=1, domain="all a, b in int32, any epsilon >= 0"))
    for fn, name in ((1, "is_identity"), (2, "is_scale"), (3, "is_int_translate")):
        js.append(Job("pred.%s.mid" % name, P, defines={"VC_FN": fn, "VC_DOM": 0}, kind="proof", functions=["pixman_transform_" + name],
                      timeout=300, min_props=1, domain="all matrices with entries in (-2^30, 2^30)", assumptions=MIDA))
    js.append(Job("pred.is_identity.extreme", P, defines={"VC_FN": 1, "VC_DOM": 1}, kind="proof", functions=["pixman_transform_is_identity"],
                  timeout=300, min_props=1, domain="all matrices with at least one entry outside (-2^30, 2^30)"))
    js.append(Job("pred.is_inverse", P, defines={"VC_FN": 4, "VC_DOM": 0}, replace=["pixman_transform_multiply"], kind="proof",
                  functions=["pixman_transform_is_inverse"], timeout=300, min_props=1,
                  domain="any a, b; product = ghost matrix with entries in (-2^30, 2^30)", assumptions=MIDA,
                  note="callee pixman_transform_multiply replaced by its contract (ghost result)"))

    # ------------------------------------------------------------------ lemmas (split form == rounded rational product)
    js.append(Job("lemma.round_half_up", "C11/lemmas.c", defines={"VC_CASE": 0}, kind="proof", functions=[], timeout=300, min_props=1,
                  domain="all |H| <= 3*2^61 + 2^31, |L| <= 3*2^47 (reachable sums): H + ((L+2^15)>>16) == round_half_up((2^16 H + L)/2^16)"))
    for mb, vb in ([(10, 20)] if not thorough else [(10, 20), (12, 18), (14, 16)]):
        js.append(smt("lemma.distributivity.bounded.m%d_v%d" % (mb, vb), "C11/lemmas.c", defines={"VC_CASE": 1, "VC_MB": mb, "VC_VB": vb},
                      cbmc_flags=NOOVF, kind="bounded", bound="|m| < 2^%d, |v| < 2^%d" % (mb, vb), functions=[], timeout=300, min_props=2,
                      domain="m*v == 2^16*(m*hi(v)) + m*lo(v) at reduced operand width; decomposition v == 2^16 hi + lo at full width"))

    # ------------------------------------------------------------------ fixed <-> double, singular inverse
    F = "C11/ftrans.c"
    ents = [(0, 0), (1, 2), (2, 1)] if not thorough else [(j, i) for j in range(3) for i in range(3)]
    for j, i in ents:
        js.append(Job("float.to_double.exact.%d%d" % (j, i), F, defines={"VC_CASE": 0, "VC_J": j, "VC_I": i}, unwind=4, kind="proof",
                      functions=["pixman_f_transform_from_pixman_transform"], timeout=300, min_props=1, domain="any 16.16 matrix"))
    for j, i in ents[:1] if not thorough else ents:
        js.append(Job("float.from_double.range.%d%d" % (j, i), F, defines={"VC_CASE": 1, "VC_J": j, "VC_I": i}, unwind=4, kind="bounded",
                      bound="one entry symbolic (every non-NaN double incl. infinities), the other eight 0.0",
                      functions=["pixman_transform_from_pixman_f_transform"], timeout=600, min_props=2, domain="entry (%d,%d)" % (j, i)))
    js.append(Job("float.from_double.nearest", F, defines={"VC_CASE": 2, "VC_J": 0, "VC_I": 0}, unwind=4, kind="bounded",
                  bound="one entry symbolic, the other eight 0.0", functions=["pixman_transform_from_pixman_f_transform"],
                  timeout=600, min_props=1, domain="'correctly rounded': |result - d*65536| <= 1/2"))
    js.append(Job("float.from_double.nan", F, defines={"VC_CASE": 3, "VC_J": 0, "VC_I": 0}, unwind=4, kind="bounded",
                  bound="one entry NaN, the other eight 0.0", functions=["pixman_transform_from_pixman_f_transform"],
                  cbmc_flags=["--conversion-check", "--float-overflow-check"], timeout=300, min_props=1, domain="NaN entry must be rejected"))
    for j in ((0,) if not thorough else (0, 1, 2)):
        js.append(Job("float.f_invert.zero_row%d" % j, F, defines={"VC_CASE": 4, "VC_J": j}, unwind=4, kind="bounded",
                      bound="singular by a zero row; other entries any double in [-32768, 32768]",
                      functions=["pixman_f_transform_invert"], timeout=900, min_props=2, domain="det == 0 exactly => FALSE, dst untouched"))
        js.append(Job("float.invert.zero_row%d" % j, F, defines={"VC_CASE": 5, "VC_J": j}, unwind=4, kind="bounded",
                      bound="singular by a zero row; other entries any 16.16 value",
                      functions=["pixman_transform_invert", "pixman_f_transform_invert", "pixman_f_transform_from_pixman_transform"],
                      timeout=900, min_props=2, domain="singular fixed-point matrix => FALSE, dst untouched"))
    return js


META = {
    "level": "proof",
    "explanation": (
        "Proof level for: split-form exactness and absence of intermediate overflow of the three 48.16 entry points "
        "(affine, 3d, projective entry with affine matrix / zero homogeneous coordinate), the round-half-up lemma, the "
        "narrowing/FALSE logic of pixman_transform_point(_3d) (48.16 callee abstracted by contract), the shift/sign/clamp "
        "helpers, pixman_transform_multiply (range logic and per-term-rounded values, three aliasing forms, no overflow), "
        "structure of scale/rotate/translate (multiply abstracted by contract) on the representable domain, "
        "pixman_transform_bounds (point transform abstracted by contract) on the int16-representable domain, the predicates "
        "on entries within (-2^30, 2^30), fixed->double exactness. Bounded only: distributivity over the operand split, "
        "quotient correctness of rounded_udiv/sdiv (tiny operand widths: 64-bit dividers are SAT-hard), double->fixed range "
        "check (one symbolic entry), singular inverse (zero row). The complements of the domain splits are own jobs and fail on "
        "the pinned tree (findings, reproduced natively)."),
    "trusted_base": [
        "spec/spec_matrix.h: split sums, round-half-up and representability predicates written from the property text",
        "z3 4.8.12 through cbmc --z3 for the obligations that match identical multiplications/divisions of code and spec by congruence (split.*.eq.*, build.scale.reverse.structure, lemma.distributivity.*)",
        "goto-instrument --replace-call-with-contract: callee contracts declared in the harness TU for pixman_transform_point_31_16(_3d), rounded_udiv_128_by_48, pixman_transform_multiply, pixman_transform_point (ghost results; each callee is the subject of its own jobs)",
        "algebraic step 2^16*H + L == sum m_i*v_i (distributivity over the operand split): checked by the solver only at reduced operand width (lemma.distributivity.bounded.*)",
        "x86-64 gcc/CBMC semantics of >> on negative signed values (arithmetic shift), used by the code and by SM_HI/SM_RND; SM_IS_RND_HALF_UP restates the rounding without such shifts (lemma.round_half_up)",
    ],
    "assumptions": [
        "48.16 entry points: inputs within the documented 31.16 domain [-2^46, 2^46) (the functions assert it; callers pixman_transform_point(_3d) are proved to satisfy it)",
        "pixman_transform_multiply 'correctly rounded' is read as the code documents it (each of the three terms rounded half-up, then summed); the literal reading (one rounding of the exact sum) is the failing job multiply.sum_rounding",
        "fixed_inverse specified as trunc(2^32/x) (DESIGN.md §5 C11), not round-to-nearest",
        "predicates (is_identity/is_scale/is_int_translate/is_inverse) have no statement in the property text: specified as |a-b| <= 2 units evaluated in the integers",
        "double obligations compare in double arithmetic (from_double.nearest is exact up to one rounding of the comparison itself)",
    ],
    "not_covered": [
        "pixman_transform_invert / pixman_f_transform_invert accuracy ('inverse within 16.16 resolution for well-conditioned matrices'): a real-analysis statement, not decidable with CBMC; only 'singular by a zero row => FALSE' is checked",
        "general singular matrices in pixman_f_transform_invert: the determinant is computed in rounded double arithmetic, det == 0 is not equivalent to singularity for large entries (not decided)",
        "projective branch of pixman_transform_point_31_16 end to end (numerator scaling by 2^32, divisor reduction to 48 bits, 'within one unit when |w| >= 65536'): only its parts are covered (helper contracts at full width, quotient at <= 16/8 bits, never-abort at full width); an end-to-end query did not finish even with 3-bit operands",
        "quotient correctness of rounded_udiv_128_by_48 / rounded_sdiv_128_by_49 beyond 16-bit numerators / 8-bit divisors",
        "pixman_f_transform_point/_point_3d/_multiply/_scale/_rotate/_translate/_bounds/_init_* (pure double arithmetic, no rounding claim in the property)",
        "distributivity 2^16*H + L == sum m_i*v_i at full width (timeout on kissat, cadical, z3)",
    ],
}
