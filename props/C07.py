"""C07 — region queries, translation and bitmap import against the point-set model (spec/spec_regionq.h).

Route H throughout (heap-touching region code; dfcc does not terminate on it, DESIGN §1).  One query =
one function x one instantiation (32/16 bit) x one rect count: a symbolic rect count makes every box
pointer symbolic and costs 20-50x (measured), so n is a compile-time constant per job.
"""
from vdriver import Job, ext_jobs, ext_meta

REC = ["--unwindset", "find_box_for_y:2"]   # recursion depth for <= 4 boxes (4 -> 2 -> 1); unwinding assertion is checked
LEAK = ["--memory-leak-check"]
NONEMPTY_Q = ["contains_rectangle: the query rectangle is non-empty (x1<x2, y1<y2); for an empty rectangle 'subset' and "
              "'disjoint' both hold and the statement does not fix the answer"]
A16 = ["translate (16-bit): |dx|,|dy| <= 2^30 (overflow_int_t is int there: extents + dx must not overflow int; "
       "the full int domain is job translate16.anydelta.n01)"]
NOFAIL = ["init_from_image: no allocation failure injected (in_failmask == 0); failure paths belong to C15"]


# extension modules merged into this property's job list (vdriver.ext_jobs / ext_meta)
EXT = [
    ("C07_msc", None),
]


def jobs(tier):
    thorough = tier != "quick"
    js = []
    for b16 in (0, 1):
        sfx = "16" if b16 else "32"
        fn = "pixman_region%s_" % ("" if b16 else "32")
        d = {"VR16": 1} if b16 else {}

        # ---------------------------------------------------------------- contains_point / find_box_for_y
        js.append(Job("contains_point%s.n01" % sfx, "C07/contains_point.c", defines=dict(d, VC_NMIN=0, VC_NMAX=1),
                      kind="proof", functions=[fn + "contains_point"], unwind=3, timeout=300, min_props=4,
                      domain="empty or single-rect region, all coordinates, any query point in int x int, box given or NULL"))
        for n in ((2, 3, 4) if thorough else (2, 4)):
            js.append(Job("contains_point%s.n%d" % (sfx, n), "C07/contains_point.c", defines=dict(d, VC_NMIN=n, VC_NMAX=n),
                          kind="bounded", bound="region of %d rects (any canonical band layout, any coordinates)" % n,
                          functions=[fn + "contains_point", "find_box_for_y"], unwind=6, timeout=600, min_props=4,
                          domain="%d rects in canonical form, all coordinates, any query point, box given or NULL" % n))
        slices = [(n, lo) for n in (2, 3, 4) for lo in range(0, n + 1)] if thorough else ([(4, 0), (3, 1)] if not b16 else [(4, 0)])
        for n, lo in slices:
            js.append(Job("find_box_for_y%s.n%d.lo%d" % (sfx, n, lo), "C07/find_box.c", defines=dict(d, VC_NMIN=n, VC_NMAX=n, VC_LO=lo),
                          kind="bounded", bound="slice [%d,%d) of a list of %d canonical rects" % (lo, n, n),
                          functions=["find_box_for_y"], unwind=6, timeout=400, min_props=4,
                          domain="slice [%d,%d) of %d canonical rects, any y: first box with y2 > y, or end" % (lo, n, n)))

        # ---------------------------------------------------------------- contains_rectangle
        js.append(Job("contains_rectangle%s.n01" % sfx, "C07/contains_rect.c", defines=dict(d, VC_NMIN=0, VC_NMAX=1, VC_MODE=1),
                      kind="proof", functions=[fn + "contains_rectangle"], unwind=3, timeout=900, min_props=8,
                      assumptions=NONEMPTY_Q,
                      domain="empty or single-rect region (single-rect and extents-reject paths), any non-empty query rectangle, "
                             "all coordinates; exact IN/OUT/PART in closed form + two ghost points"))
        ghost_ns = (2, 3, 4) if thorough else ((2,) if not b16 else (3,))
        for n in ghost_ns:
            js.append(Job("contains_rectangle%s.n%d.ghost" % (sfx, n), "C07/contains_rect.c",
                          defines=dict(d, VC_NMIN=n, VC_NMAX=n, VC_MODE=2), cbmc_flags=REC,
                          kind="bounded", bound="region of %d rects (includes 2 bands x 2 rects for n=4)" % n,
                          functions=[fn + "contains_rectangle", "find_box_for_y"], unwind=6, timeout=1200, min_props=8,
                          assumptions=NONEMPTY_Q,
                          domain="%d canonical rects, all coordinates, two ghost points in the rectangle: IN => in, OUT => not in, "
                                 "one in + one out => PART" % n))
        exact_ns = (2, 3, 4) if thorough else ((2,) if b16 else ())
        for n in exact_ns:
            js.append(Job("contains_rectangle%s.n%d.exact" % (sfx, n), "C07/contains_rect.c",
                          defines=dict(d, VC_NMIN=n, VC_NMAX=n, VC_MODE=3, VC_GRID=8), cbmc_flags=REC,
                          kind="bounded", bound="%d rects, coordinates in [-8,8]" % n,
                          functions=[fn + "contains_rectangle", "find_box_for_y"], unwind=6, timeout=2400, min_props=8,
                          assumptions=NONEMPTY_Q,
                          domain="%d canonical rects and query rectangle with coordinates in [-8,8]; exact IN/OUT/PART by counting covered points" % n))

        # ---------------------------------------------------------------- not_empty / n_rects / extents / rectangles
        js.append(Job("trivial%s" % sfx, "C07/trivial.c", defines=dict(d),
                      kind="proof", functions=[fn + "not_empty", fn + "n_rects", fn + "extents", fn + "rectangles"],
                      unwind=6, timeout=300, min_props=8,
                      domain="empty, single-rect, or multi-rect region with any numRects <= 2^20 (loop-free functions that do not read the rect array)"))

        # ---------------------------------------------------------------- translate
        tfn = fn + "translate"
        js.append(Job("translate%s.inrange.n01" % sfx, "C07/translate.c", defines=dict(d, VC_NMIN=0, VC_NMAX=1, VC_RANGE=0),
                      kind="proof", functions=[tfn], unwind=5, timeout=900, min_props=5, cbmc_flags=LEAK,
                      domain="empty or single-rect region, all coordinates, every (dx,dy) keeping the region inside [MIN,MAX]; "
                             "ghost point with 64-bit coordinates; all point-set and shape obligations"))
        for n in (2, 3):
            js.append(Job("translate%s.inrange.n%d" % (sfx, n), "C07/translate.c", defines=dict(d, VC_NMIN=n, VC_NMAX=n, VC_RANGE=0),
                          kind="bounded", bound="%d rects" % n, functions=[tfn], unwind=5, timeout=1200, min_props=5, cbmc_flags=LEAK,
                          domain="%d canonical rects, every (dx,dy) keeping the region inside [MIN,MAX]: every rect shifted exactly" % n))
        if b16:
            parts = [(1, "points", "point set shifted by (dx,dy) and clipped to [MIN,MAX)"),
                     (2, "shape", "single rect inline, band order, tight extents"),
                     (3, "nonempty", "every rect of the result non-empty"),
                     (4, "emptyshape", "empty result is the static empty region; no *** BUG *** logged"),
                     (5, "coalesced", "coalesced input gives coalesced result (full C06 form)")]
            for n in (1, 2, 3):
                for part, pname, what in parts:
                    if part == 5 and (n == 1 or (n == 3 and not thorough)):
                        continue
                    nm = "n01" if n == 1 else "n%d" % n
                    js.append(Job("translate16.clip.%s.%s" % (nm, pname), "C07/translate.c",
                                  defines=dict(d, VC_NMIN=0 if n == 1 else n, VC_NMAX=n, VC_RANGE=1, VC_PART=part,
                                               VC_COAL=1 if part == 5 else 0),
                                  kind="proof" if n == 1 else "bounded", bound="" if n == 1 else "%d rects" % n,
                                  functions=[tfn] + (["pixman_set_extents"] if n > 1 else []), unwind=6, timeout=1200, min_props=1,
                                  cbmc_flags=LEAK, assumptions=A16,
                                  domain="%s, |dx|,|dy| <= 2^30 (overflow/clamp branches): %s"
                                         % ("empty or single-rect region" if n == 1 else "%d canonical rects" % n, what)))
        # full (dx,dy) domain: the additions of the code overflow int (UB); checked with wrap-around semantics in CBMC
        # (--no-signed-overflow-check) so that ONE named obligation fails; UBSan traps in the native replay
        js.append(Job("translate%s.anydelta.n01" % sfx, "C07/translate.c", defines=dict(d, VC_NMIN=0, VC_NMAX=1, VC_RANGE=2, VC_PART=1),
                      kind="proof", functions=[tfn], unwind=5, timeout=900, min_props=3,
                      cbmc_flags=LEAK + ["--no-signed-overflow-check"],
                      domain="empty or single-rect region, every (dx,dy) in int x int"))

        if b16:
            # same domain with the verifier's signed-overflow checks on and no harness obligation: exposes the UB itself
            js.append(Job("translate16.anydelta.n01.ub", "C07/translate.c", defines=dict(d, VC_NMIN=0, VC_NMAX=1, VC_RANGE=2, VC_PART=6),
                          kind="proof", functions=[tfn], unwind=5, timeout=900, min_props=3, cbmc_flags=LEAK,
                          domain="empty or single-rect region, every (dx,dy) in int x int: no signed overflow in the code's own arithmetic"))

        # ---------------------------------------------------------------- init_from_image
        if not b16 or thorough:
            widths = (2, 3) if (thorough and not b16) else (2,)
            for w in widths:
                js.append(Job("init_from_image%s.w%d.h1" % (sfx, w), "C07/init_from_image.c",
                              defines=dict(d, VC_W=w, VC_H=1, VC_NOFAIL=1, VC_COAL=0, RQ_IMG_MAXRECTS=2),
                              kind="bounded", bound="a1 image %d x 1 (symbolic bits, padding and stride 2 or 3 words)" % w,
                              functions=[fn + "init_from_image", "bitmap_addrect", "pixman_rect_alloc"], unwind=8,
                              timeout=900 if w == 2 else 2400, min_props=6, assumptions=NOFAIL,
                              domain="width %d, height 1, every bit pattern; any point in int x int: in region <=> bit set" % w))
    return js + ext_jobs(tier, EXT)


META = {
    "level": "proof",
    "trusted_base": [
        "spec/spec_regionq.h: point-in-box, point-in-rect-list, canonical-form predicate, box/box interval formulas, a1 bit order, written from the property text",
        "models/rq_env.h: pixman_image_get_{data,width,height,stride} modelled as field reads of a BITS image; _pixman_log_error replaced by a counter (post.no_error_logged)",
    ],
    "assumptions": [
        "input regions are in canonical form (non-empty rects, y-x band order with gaps, tight extents, single rect stored inline, empty region = static empty data with x1==x2,y1==y2); vertical coalescing is NOT assumed for the queries",
        "32-bit translate: every overflow/clamp branch is reachable only through signed int overflow in `region->extents.x1 + x` (finding translate32.anydelta.n01); those branches are therefore verified for the 16-bit instantiation only",
    ],
    "not_covered": [
        "find_box_for_y / contains_point / contains_rectangle beyond 4 rects (no unbounded recursion/loop contract: dfcc on this TU was not attempted within budget)",
        "contains_rectangle exact classification (no spurious PART) beyond coordinates [-8,8] for multi-rect regions",
        "translate compaction loop beyond 3 rects; in-range loop beyond 3 rects (no route-D loop contract)",
        "init_from_image beyond width 3 x height 1: full-word loop, mask0 with base != 0, row coalescing (height 2) do not finish symbolic execution (realloc with merged symbolic sizes) -> UNVERIFIED",
        "init_from_image 16-bit instantiation beyond width 2",
    ],
}
META = ext_meta(META, EXT)
