"""C09 (flag half) — compute_image_info: IS_OPAQUE / SAMPLES_OPAQUE are only set when the picture is opaque in the
sense of the property ("every sample that can contribute, including samples outside a non-repeating image, has
alpha 1").  Exposes jobs(tier) for props/C09.py to merge."""
from vdriver import Job

TYPES = [("bits", 0), ("linear", 1), ("conical", 2), ("radial", 3), ("solid", 4)]
OVF_NOTE = ("signed-overflow check off in this job: compute_image_info adds two arbitrary 16.16 matrix entries "
            "(pixman-image.c:362), which overflows for |t00 + t01| >= 2^31 (reported, not part of C09)")


def jobs(tier):
    js = []
    for tname, t in TYPES:
        grad = t in (1, 2, 3)
        js.append(Job("info.opaque." + tname, "C09/info.c", defines={"VI_TYPE": t},
                      kind="bounded" if grad else "proof", bound="gradient with <= 3 stops" if grad else "",
                      cbmc_flags=["--pointer-check", "--memory-leak-check", "--no-signed-overflow-check"], unwind=11,
                      timeout=600, min_props=4, functions=["compute_image_info"],
                      assumptions=[OVF_NOTE] + (["BITS image format is one of the pixman_format_code_t enumerators of pixman.h"]
                                                if t == 0 else []),
                      domain="any transform/filter/repeat code/component alpha/old flags, optional alpha map; type " + tname))
    return js


META_EXTRA = {
    "trusted_base": ["spec/spec_image.h: spi_opaque / spi_samples_opaque and the literal format classification, written from the property text"],
    "assumptions": ["gradient stop loop of compute_image_info unrolled for <= 3 stops"],
}

# standalone use (bin/check C09_info) for debugging; props/C09.py merges jobs(tier) and META_EXTRA
META = {"level": "proof", "trusted_base": META_EXTRA["trusted_base"], "assumptions": META_EXTRA["assumptions"], "not_covered": []}
