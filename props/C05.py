"""C05 — region operations implement exact set algebra on integer points
(pixman-region.c instantiated by pixman-region32.c / pixman-region16.c; conversions in pixman-utils.c).

Specification: spec/spec_region.h (point membership, canonical form).  Harnesses: harness/C05/*.c.

short*/un* jobs: route H, operands of <= 1 rectangle or empty, FULL coordinate domain, one memory-shape
case per query.  Every call of pixman_op is PRUNED by a stub (harness/C05/rh.h, VR_OPMODE=1): the stub
asserts pixman_op's documented precondition (operands distinct, non-empty, not broken) and then cuts
the path with assume(false).  So these jobs prove the shortcut logic, the decision when to leave it,
and that pixman_op is entered legally; what pixman_op computes is covered only by the bounded op*/leaf*
jobs.  Canonical form (C06) is a conjunct of every postcondition here.
"""
from vdriver import Job, ext_jobs, ext_meta

LEAK = ["--memory-leak-check"]
OPS = [(0, "intersect"), (1, "union"), (2, "subtract")]
SHAPE = {0: "single rectangle", 1: "empty", 2: "2-rectangle heap region"}
DSTN = {0: "single rectangle", 1: "2-rectangle heap region (must be freed)", 2: "static empty", 3: "uninitialised memory"}
ALIASN = {0: "new, reg1, reg2 distinct", 1: "new==reg1", 2: "new==reg2", 3: "reg1==reg2", 4: "new==reg1==reg2"}
PRUNE = ("paths that enter pixman_op are cut in this job (stub asserts pixman_op's precondition, then assume(false)); "
         "they are covered only by the bounded op.* jobs")
FNS = {1: "inverse", 2: "intersect_rect", 3: "union_rect", 4: "copy", 5: "reset", 6: "clear", 7: "init", 8: "init_rect",
       9: "init_with_extents"}


def pfx(bits, name):
    return ("pixman_region32_" if bits == 32 else "pixman_region_") + name


def coord(bits):
    return "every int%d coordinate" % bits


def binop_cases(bits, tier):
    """(alias, sa, sb, dst) cases of the three binary operations"""
    out = []
    full = tier != "quick"
    for alias in (0, 1, 2, 3, 4):
        shapes = [(0, 0), (0, 1), (1, 0), (1, 1)] if alias in (0, 1, 2) else [(0, 0), (1, 1)]
        for sa, sb in shapes:
            if alias in (0, 3):
                dsts = (0, 1, 2) if full else ((0, 1) if (sa, sb) in ((0, 0), (1, 1)) else (0,))
            else:
                dsts = (0,)
            for dst in dsts:
                if bits == 16 and not full and not (dst == 0 and (sa, sb) != (1, 1) and (alias == 0 or (sa, sb) == (0, 0))):
                    continue
                out.append((alias, sa, sb, dst))
    return out


def binop_jobs(bits, tier):
    js = []
    for op, opn in OPS:
        for alias, sa, sb, dst in binop_cases(bits, tier):
            js.append(Job("short%d.%s.alias%d.s%d%d.d%d" % (bits, opn, alias, sa, sb, dst), "C05/binop.c",
                          defines={"VR_BITS": bits, "VR_OP": op, "VR_ALIAS": alias, "VR_SA": sa, "VR_SB": sb, "VR_DST": dst,
                                   "VR_OPMODE": 1},
                          kind="proof", functions=[pfx(bits, opn), pfx(bits, "copy")], unwind=3, cbmc_flags=LEAK,
                          timeout=900, min_props=6,
                          domain="%s; A: %s, B: %s (%s); destination before the call: %s; ghost point anywhere; "
                                 "ret==TRUE, p in new <=> %s, canon(new), operands unchanged, no leak"
                                 % (ALIASN[alias], SHAPE[sa], SHAPE[sb], coord(bits), DSTN[dst], opn),
                          assumptions=[PRUNE, "operands restricted to <= 1 rectangle or empty (shortcut paths); broken regions excluded (C15)"]))
    return js


def binop_heap_jobs(bits, tier):
    """one operand with a rectangle list (2 rectangles): the SUBSUMES -> copy shortcuts of _intersect, the NIL / extent-reject
    shortcuts with a list operand, heap copies; pixman_op still pruned"""
    js = []
    cases = [(0, 2, 0, 0), (0, 0, 2, 0)] if tier == "quick" else [(op, sa, sb, al) for op in (0, 1, 2) for sa, sb in ((2, 0), (0, 2), (2, 1), (1, 2))
                                                                  for al in (0, 1, 2)]
    if bits == 16 and tier == "quick":
        cases = cases[:1]
    for op, sa, sb, alias in cases:
        opn = OPS[op][1]
        js.append(Job("short%d.%s.alias%d.s%d%d.heap" % (bits, opn, alias, sa, sb), "C05/binop.c",
                      defines={"VR_BITS": bits, "VR_OP": op, "VR_ALIAS": alias, "VR_SA": sa, "VR_SB": sb, "VR_DST": 0, "VR_OPMODE": 1},
                      kind="bounded", bound="one operand has exactly 2 rectangles", functions=[pfx(bits, opn), pfx(bits, "copy"), "alloc_data"],
                      unwind=4, cbmc_flags=LEAK, timeout=1800, min_props=6,
                      domain="%s; A: %s, B: %s (%s); ghost point anywhere; ret==TRUE, p in new <=> %s, canon(new), operands unchanged, no leak"
                             % (ALIASN[alias], SHAPE[sa], SHAPE[sb], coord(bits), opn),
                      assumptions=[PRUNE]))
    return js


def unop_cases(fn, bits, tier):
    """(sa, alias, dst, box) cases"""
    full = tier != "quick"
    out = []
    if fn in (1, 2, 3, 4):
        box = 2 if fn == 3 else 0
        for sa in (0, 1):
            out.append((sa, 0, 0, box))
            out.append((sa, 1, 0, box))
            if full or sa == 0:
                out.append((sa, 0, 1, box))
            if full:
                out.append((sa, 0, 2, box))
    elif fn in (5, 6):
        out = [(0, 0, d, 0) for d in (0, 1, 2)]
    elif fn == 7:
        out = [(0, 0, 3, 0)]
    else:
        out = [(0, 0, 3, 2)]
    if bits == 16 and not full:
        out = out[:1]
    return out


BOXN = {0: "non-empty box/rectangle argument", 1: "empty (zero width or height) box/rectangle argument",
        2: "any box/rectangle argument (empty ones included; init_with_extents: inverted ones too)"}


def unop_jobs(bits, tier):
    js = []
    for fn, name in FNS.items():
        for sa, alias, dst, box in unop_cases(fn, bits, tier):
            assum = [PRUNE] if fn <= 3 else []
            if fn in (2, 3, 8):
                assum.append("x+width and y+height do not exceed the largest coordinate (property: coordinates inside the representable range)")
            if fn in (1, 2, 5):
                assum.append("the box / rectangle argument is non-empty (reset: the code's own critical_if_fail precondition; "
                             "inverse / intersect_rect with an empty argument: see C06 jobs canon*.*_empty_*)")
            js.append(Job("un%d.%s.s%d.alias%d.d%d" % (bits, name, sa, alias, dst), "C05/unop.c",
                          defines={"VR_BITS": bits, "VR_FN": fn, "VR_SA": sa, "VR_ALIAS": alias, "VR_DST": dst, "VR_BOX": box,
                                   "VR_OPMODE": 1},
                          kind="proof", functions=[pfx(bits, name)], unwind=3, cbmc_flags=LEAK, timeout=900, min_props=4,
                          domain="%s; operand: %s; destination %s: %s; %s; ghost point anywhere; ret==TRUE, membership == set algebra, canon(result)"
                                 % (coord(bits), SHAPE[sa] if fn <= 4 else "-", "== operand" if alias else "distinct", DSTN[dst], BOXN[box]),
                          assumptions=assum))
    # copy of a heap source: allocation + memmove (bounded by the rectangle count)
    for dst in ((0, 1, 2) if tier != "quick" else (1,)):
        js.append(Job("un%d.copy.heap2.d%d" % (bits, dst), "C05/unop.c",
                      defines={"VR_BITS": bits, "VR_FN": 4, "VR_SA": 2, "VR_ALIAS": 0, "VR_DST": dst, "VR_BOX": 0, "VR_OPMODE": 2},
                      kind="bounded", bound="source region has exactly 2 rectangles", functions=[pfx(bits, "copy"), "alloc_data"],
                      unwind=4, cbmc_flags=LEAK, timeout=900, min_props=4,
                      domain="%s; source: canonical 2-rectangle heap region; destination: %s; pixman_op asserted unreachable" % (coord(bits), DSTN[dst])))
    return js


def op_jobs(bits, tier):
    """the public operations through the REAL pixman_op / band functions / coalesce / set_extents"""
    js = []
    if tier == "quick":
        return js
    # measured on a loaded machine: intersect 1x1 full domain 236 s
    js.append(Job("op%d.intersect.n1x1.full" % bits, "C05/op.c",
                  defines={"VR_BITS": bits, "VR_OP": 0, "VR_NA": 1, "VR_NB": 1, "VR_STUB_ALLOC": None},
                  kind="bounded", bound="1 rectangle per operand (full coordinate domain), output buffer pre-sized to 16 boxes",
                  functions=["pixman_op", "pixman_region_intersect_o", "pixman_coalesce", "pixman_set_extents", pfx(bits, "intersect")],
                  unwind=4, cbmc_flags=LEAK, timeout=2400, min_props=6,
                  domain="%s; A, B single rectangles; real pixman_op; library allocation asserted unreachable" % coord(bits),
                  assumptions=["destination is a distinct heap region whose buffer is large enough (no allocation inside pixman_op)"]))
    if bits == 32:
        # measured on a loaded machine: 526 s / 5.2 GB
        js.append(Job("op32.intersect.n2x2.c6", "C05/op.c",
                      defines={"VR_BITS": 32, "VR_OP": 0, "VR_NA": 2, "VR_NB": 2, "VR_CMAX": 6, "VR_DSIZE": 8, "VR_STUB_ALLOC": None},
                      kind="bounded", bound="2 rectangles per operand, coordinates 0..6, output buffer pre-sized to 8 boxes",
                      functions=["pixman_op", "pixman_region_intersect_o", "pixman_coalesce", "pixman_set_extents", pfx(32, "intersect")],
                      unwind=5, cbmc_flags=LEAK, timeout=2400, min_props=6,
                      domain="A, B canonical 2-rectangle regions with coordinates in 0..6; real pixman_op and band function; ghost point; "
                             "library allocation asserted unreachable",
                      assumptions=["destination is a distinct heap region whose buffer is large enough (no allocation inside pixman_op)",
                                   "coordinates restricted to 0..6"]))
    return js


def leaf_jobs(bits, tier):
    js = []
    co = [(1, 0)] if tier == "quick" else [(1, 0), (1, 1), (2, 0), (2, 1)]
    for k, pre in co:
        js.append(Job("leaf%d.coalesce.k%d.pre%d" % (bits, k, pre), "C05/leaf.c",
                      defines={"VR_BITS": bits, "VR_FN": 1, "VR_K": k, "VR_PRE": pre},
                      kind="bounded", bound="bands of %d rectangle(s), %d earlier rectangle(s)" % (k, pre),
                      functions=["pixman_coalesce"], unwind=6, timeout=1800, min_props=6,
                      domain="%s; two legal bands of equal length at the end of the array; merged iff adjacent and identical spans; "
                             "point set unchanged" % coord(bits)))
    ks = (0, 1, 2) if tier == "quick" else (0, 1, 2, 3)
    if bits == 16 and tier == "quick":
        ks = (0, 2)
    for k in ks:
        js.append(Job("leaf%d.set_extents.k%d" % (bits, k), "C05/leaf.c",
                      defines={"VR_BITS": bits, "VR_FN": 2, "VR_K": k},
                      kind="proof" if k <= 1 else "bounded", bound="" if k <= 1 else "region with exactly %d rectangles" % k,
                      functions=["pixman_set_extents"], unwind=6, timeout=1200, min_props=3,
                      domain="%s; canonical list of %d rectangles, extents arbitrary on entry; extents == tight bounding box afterwards" % (coord(bits), k)))
    return js


def initrects_jobs(bits, tier):
    js = []
    for count in (0, 1):
        js.append(Job("initrects%d.count%d" % (bits, count), "C05/initrects.c",
                      defines={"VR_BITS": bits, "VR_COUNT": count},
                      kind="bounded", bound="%d boxes" % count, functions=[pfx(bits, "init_rects"), pfx(bits, "init_rect")],
                      unwind=4, cbmc_flags=LEAK, timeout=900, min_props=4,
                      domain="%s; %d box(es), possibly empty or inverted; region object uninitialised" % (coord(bits), count),
                      assumptions=(["count==1, 32-bit: x2-x1 and y2-y1 fit an int (wider boxes: job finding.initrects32.count1.wide_box)"]
                                   if count == 1 and bits == 32 else [])))
    if bits == 32:
        # fails on the pinned tree: signed overflow of boxes[0].x2 - boxes[0].x1 (pixman-region.c:2488/2489)
        js.append(Job("finding.initrects32.count1.wide_box", "C05/initrects.c",
                      defines={"VR_BITS": 32, "VR_COUNT": 1, "VR_WIDE": None},
                      kind="bounded", bound="1 box", functions=[pfx(32, "init_rects")], unwind=4, cbmc_flags=LEAK, timeout=900, min_props=4,
                      domain="every int32 coordinate, one box of any width/height (e.g. INT32_MIN..INT32_MAX)"))
    return js


def band_jobs(bits, tier):
    """(lead) the three overlap procedures called directly, both bands in canonical form, every coordinate free"""
    js = []
    ks = [(1, 1), (2, 1), (1, 2), (2, 2)] if tier == "quick" else [(1, 1), (2, 1), (1, 2), (2, 2), (3, 1), (1, 3), (3, 2), (2, 3)]
    if bits == 16 and tier == "quick":
        ks = [(2, 2)]
    for op, nm in ((0, "intersect_o"), (1, "union_o"), (2, "subtract_o")):
        for k1, k2 in ks:
            js.append(Job("band%d.%s.k%d%d" % (bits, nm, k1, k2), "C05/band.c",
                          defines={"VR_BITS": bits, "VB_OP": op, "VB_K1": k1, "VB_K2": k2}, kind="bounded",
                          bound="%d and %d rectangles in the two bands" % (k1, k2), functions=["pixman_region_" + nm],
                          unwind=8 if max(k1, k2) < 3 else 10, timeout=1800, min_props=5,
                          domain="%s; two canonical bands of %d / %d rectangles, y1<y2 free; ghost x: appended boxes == op of the bands, "
                                 "appended boxes non-empty/sorted/separated; destination pre-sized (allocation asserted unreachable)"
                                 % (coord(bits), k1, k2)))
    return js


def conv_jobs(tier):
    js = []
    for d, name in ((0, "pixman_region16_copy_from_region32"), (1, "pixman_region32_copy_from_region16")):
        for sa in (0, 1):
            for dst in ((0, 1, 2) if tier != "quick" else (0, 1)):
                js.append(Job("conv.%s.s%d.d%d" % ("16from32" if d == 0 else "32from16", sa, dst), "C05/conv.c",
                              defines={"VR_DIR": d, "VR_SA": sa, "VR_DST": dst},
                              extra_sources=["repo:pixman/pixman-region32.c", "repo:pixman/pixman-region16.c"],
                              kind="proof", functions=[name], unwind=3, cbmc_flags=LEAK, timeout=900, min_props=4,
                              domain="source: %s, %s; destination before: %s; real region TUs linked unmodified"
                                     % (SHAPE[sa], "coordinates inside the int16 range" if d == 0 else "every int16 coordinate", DSTN[dst]),
                              assumptions=(["16<-32: source coordinates lie inside the int16 range (the representable range of the result)"]
                                           if d == 0 else [])))
    return js


# extension modules merged into this property's job list (vdriver.ext_jobs / ext_meta)
EXT = [
    ("C05_opv", None),
]


def jobs(tier):
    js = []
    for bits in (32, 16):
        js += binop_jobs(bits, tier)
        js += binop_heap_jobs(bits, tier)
        js += unop_jobs(bits, tier)
        js += op_jobs(bits, tier)
        js += leaf_jobs(bits, tier)
        js += initrects_jobs(bits, tier)
        js += band_jobs(bits, tier)
    js += conv_jobs(tier)
    return js + ext_jobs(tier, EXT)


META = {
    "level": "proof",
    "trusted_base": [
        "spec/spec_region.h: point membership in a box / rectangle list and the canonical-form predicate, written from the C05/C06 statements",
        "harness/C05/rh.h: interception of pixman_op by a function-like macro while the unmodified source is #included "
        "(definition renamed pixman_op_real, call sites routed to the pruning stub)",
    ],
    "assumptions": [
        "proof-level jobs restrict operands to <= 1 rectangle or empty: they prove the trivial-case shortcuts (EXTENTCHECK / SUBSUMES / NIL / "
        "aliasing) of intersect, union, subtract, inverse, intersect_rect, union_rect, copy, reset, clear, init*, for all coordinates; "
        "multi-rectangle operands reach the same shortcuts only through the same comparisons on extents",
        "broken regions (allocation-failure state) are not operands here: C15",
        "an empty region may carry any degenerate extents (x1==x2, y1==y2), as left behind by a trivially rejected intersect; "
        "whether equal() tolerates that is C06's separate obligation",
    ],
    "not_covered": [
        "UNVERIFIED: pixman_op with pixman_region_union_o / pixman_region_subtract_o (1 rectangle per operand: out of 14 GB / 600 s over the "
        "full coordinate domain, no result in 900 s with coordinates 0..6); hence _union/_subtract/_inverse results of more than one "
        "rectangle, and the aliasing patterns inside pixman_op (old_data), are not verified",
        "UNVERIFIED: validate() / quick_sort_rects / init_rects with >= 2 boxes (no result in 600 s at 2 boxes, coordinates 0..6)",
        "UNVERIFIED: conversions of regions with >= 2 rectangles (go through init_rects -> validate)",
        "extents computation after pixman_op in _union (min/max of operand extents) is reached only in the bounded op.* jobs",
        "translate, contains_*, init_from_image: C07",
    ],
}
META = ext_meta(META, EXT)
