"""C18 — separable-convolution filter tables (pixman-filter.c, pixman_image_set_filter).

Structure, bounds and "every phase sums to 65536" are decided; kernel VALUES are not (exp/sin, Simpson
accuracy: no real arithmetic in CBMC).  Compositional: header.c proves that the public function hands
create_1d_filter exactly the table the header announces (create_1d_filter replaced by a checking stub),
taps.c proves that create_1d_filter stays inside such a table and normalises every phase to 65536."""
from vdriver import Job

HEAP = ["--memory-leak-check"]
DOMAIN_ALL = "all 8x8 kernel pairs per axis, every positive 16.16 scale, subsample bits 0..8 per axis, allocation may fail"
A_BITS = "subsample bits restricted to 0..8 (the property's domain; 1 << bits is undefined from 31)"
A_SPLIT = ("header.block: 1 <= width, height <= 32767 (domain split; width == 0 is job finding.width0.bounds, "
           "width >= 32768 is job finding.header.width_ge_32768)")
A_STUB = ("create_1d_filter: integral() replaced by a stub (arbitrary finite |c| <= 8: exp/sin have no model); the two rounding "
          "steps `(pixman_fixed_t) floor (v)` are abstracted as a whole to arbitrary integers: sampling pass |f| <= 2^19 "
          "(= every floor (c*65536+0.5) with |c| <= 8), normalisation pass |f| <= 2^27")
A_NORM = ("create_1d_filter: the normalisation is defined — tap total != 0 and normalised coefficients below 2048.0 in magnitude "
          "(cannot be proved for arbitrary kernel values; for the kernel pairs with a decidable integral it is an obligation "
          "of the real.* jobs, and it FAILS for IMPULSE reconstruction with a narrow sampling kernel: finding.total_zero.*)")
A_FIXED = "create_1d_filter stub jobs: kernel pair BOX x BOX and scale 1.0 fixed (with both roundings abstracted they only decide which taps call the stub)"


def taps_stub(w, n):
    nt = w * n
    return Job("taps.stub.w%d.n%d" % (w, n), "C18/taps.c", defines={"VC_W": w, "VC_N": n, "VC_STUB": 1, "VC_R": 1, "VC_K": 1},
               kind="bounded", bound="width %d taps x %d phases; floating-point results abstracted to arbitrary integers in range" % (w, n),
               functions=["create_1d_filter"], unwind=2 * nt + 3, cbmc_flags=["--conversion-check", "--slice-formula"],
               timeout=900 if nt > 12 else 400, min_props=40,
               domain="table of %d x %d words between two guard words; every rounding result arbitrary" % (n, w),
               assumptions=[A_STUB, A_NORM, A_FIXED])


def taps_real(name, w, n, r, k, dom, domain, timeout=400, flags=("--conversion-check",), note=""):
    return Job(name, "C18/taps.c", defines={"VC_W": w, "VC_N": n, "VC_STUB": 0, "VC_R": r, "VC_K": k, "VC_DOM": dom},
               kind="bounded", bound="kernel pair fixed, width %d taps x %d phases; every 16.16 scale with that width" % (w, n),
               functions=["create_1d_filter", "integral", "filter_width"], unwind=w * n + 5, cbmc_flags=list(flags),
               timeout=timeout, min_props=40, domain=domain, note=note)


def jobs(tier):
    thorough = tier != "quick"
    js = []
    # ---- (1) length / header / allocation / tiling; acceptance
    js.append(Job("header.block", "C18/header.c", defines={"VC_DOM": 0}, kind="proof", cbmc_flags=HEAP, unwind=3, timeout=900,
                  min_props=60, functions=["pixman_filter_create_separable_convolution", "filter_width"],
                  domain=DOMAIN_ALL + "; widths 1..32767", assumptions=[A_BITS, A_SPLIT],
                  note="create_1d_filter replaced by a stub that checks the table it is given: shape as announced, at least one tap, "
                       "first and last word inside the block, x table right after the header, y table right after it and ending the block"))
    js.append(Job("finding.header.width_ge_32768", "C18/header.c", defines={"VC_DOM": 1}, kind="bounded",
                  bound="subsample bits 0; x axis wide, y axis 1..32767", cbmc_flags=HEAP, unwind=3, timeout=600, min_props=60,
                  functions=["pixman_filter_create_separable_convolution"],
                  domain="scale_x * support(sample_x) + support(reconstruct_x) > 32767 (e.g. scale 4096 with LANCZOS3_STRETCHED, scale 32767.5 with BOX)",
                  note="EXPECTED TO FAIL on the unchanged tree: pixman_int_to_fixed (width) wraps for width >= 32768", assumptions=[A_BITS]))
    js.append(Job("finding.width0.bounds", "C18/header.c", defines={"VC_REAL": 1}, kind="bounded",
                  bound="the single input IMPULSE x IMPULSE on both axes, scale 1, no subsampling",
                  cbmc_flags=HEAP + ["--no-signed-overflow-check"], unwind=3, timeout=400, min_props=60,
                  functions=["pixman_filter_create_separable_convolution", "create_1d_filter"],
                  domain="all four kernels IMPULSE: filter_width == 0, block of 4 words; nothing replaced",
                  note="EXPECTED TO FAIL on the unchanged tree (DESIGN.md §7): *(p - width) += ... at pixman-filter.c:307 reads and writes params[4]"))
    js.append(Job("accept.reject_mismatch", "C18/accept.c", defines={"VC_CASE": 0}, kind="proof", cbmc_flags=HEAP, unwind=16,
                  timeout=300, min_props=40, functions=["pixman_image_set_filter"], assumptions=[A_BITS],
                  domain="any header with width, height <= 32767, phase bits <= 8; any n_params != 4 + width*2^bx + height*2^by"))
    js.append(Job("accept.accept_match", "C18/accept.c", defines={"VC_CASE": 1}, kind="bounded", bound="block <= 12 words",
                  cbmc_flags=HEAP, unwind=16, timeout=300, min_props=40, functions=["pixman_image_set_filter"], assumptions=[A_BITS],
                  domain="any header whose announced length 4 + width*2^bx + height*2^by is <= 12; n_params equal to it; allocation may fail"))
    js.append(Job("chain.create_then_set", "C18/accept.c", defines={"VC_CASE": 2}, kind="bounded",
                  bound="the single input BOX x BOX, scale 1, no subsampling (2 + 2 taps)", cbmc_flags=HEAP, unwind=16, timeout=300,
                  min_props=40, functions=["pixman_filter_create_separable_convolution", "create_1d_filter", "integral",
                                           "pixman_image_set_filter"],
                  domain="end to end, nothing replaced or abstracted"))
    # ---- (2) create_1d_filter: bounds + sum, values abstracted
    shapes = [(w, n) for w in range(1, 7) for n in (1, 2, 4)]
    if not thorough:
        shapes = [(1, 1), (1, 4), (2, 2), (3, 4), (4, 2), (5, 1), (6, 2)]
    for w, n in shapes:
        js.append(taps_stub(w, n))
    # ---- create_1d_filter with the real integral for kernel pairs without transcendental functions
    js.append(taps_real("real.impulse_box.w1.n1", 1, 1, 0, 1, 0, "IMPULSE x BOX, scale in (0, 1], one phase"))
    js.append(taps_real("real.impulse_box.w2.n2.covered", 2, 2, 0, 1, 1,
                        "IMPULSE x BOX, scale in (1, 2], two phases (sampling kernel at least one pixel wide)"))
    js.append(taps_real("finding.total_zero.impulse_box.w1.n2", 1, 2, 0, 1, 2, "IMPULSE x BOX, scale < 1, two phases",
                        flags=("--no-signed-overflow-check",),
                        note="EXPECTED TO FAIL on the unchanged tree: no tap overlaps the impulse, total == 0, 65536/0"))
    if thorough:
        js.append(taps_real("real.box_box.w2.n2", 2, 2, 1, 1, 0, "BOX x BOX, scale in (0, 1], two phases", timeout=1200))
        js.append(taps_real("real.impulse_box.w1.n2.scale1", 1, 2, 0, 1, 1, "IMPULSE x BOX, scale == 1, two phases"))
    return js


META = {
    "level": "proof",
    "level_note": "structure only: block length, header, tiling, bounds, allocation, and 'every phase sums to 65536' as carried by the "
                  "integer accumulator and the fix-up; coefficient VALUES (kernels, Simpson integration, exp/sin) are not decided",
    "trusted_base": ["CBMC library models of ceil/floor/fabs",
                     "harness/C18/header.c: kernel support table {0,1,2,4,5,4,6,8} and width = ceil(support_r + scale*support_s) as the definition of the table width"],
    "assumptions": [A_BITS],
    "not_covered": ["kernel values, accuracy of the Simpson integration, exp/sin/sqrt (no real arithmetic, no models)",
                    "that the normalisation is defined (tap total != 0, quotients representable) for the kernel pairs whose integral "
                    "needs exp/sin or Simpson integration (natively: GAUSSIAN x BOX at scale 1/65536 with 2 subsample bits has total 0)",
                    "assert (width == 0.0) inside integral() for IMPULSE kernels other than IMPULSE x BOX",
                    "tables wider than 6 taps or with more than 4 phases in create_1d_filter (loops unrolled)",
                    "gnuplot_filter (PIXMAN_GNUPLOT builds only)"],
}
