"""C09 — opacity-based operator and path simplifications never change the picture."""
from vdriver import Job

OPS = ["CLEAR", "SRC", "DST", "OVER", "OVER_REVERSE", "IN", "IN_REVERSE", "OUT", "OUT_REVERSE", "ATOP", "ATOP_REVERSE",
       "XOR", "ADD"]


def jobs(tier):
    js = [Job("optfn.optimize_operator", "C09/optab_fn.c", kind="proof", functions=["optimize_operator"],
              domain="every operator code, every 32-bit flag word x3", timeout=300, min_props=4)]
    for op in OPS:
        for cell in (1, 2, 3):
            for mode in (0, 1):
                if tier == "quick" and mode == 0 and cell == 3:
                    continue
                js.append(Job("optab.%s.cell%d.m%d" % (op, cell, mode), "C09/optab.c",
                              defines={"VC_OPA": op, "VC_CELL": cell, "VC_MODE": mode}, kind="proof",
                              functions=["optimize_operator", "operator_table", "_pixman_setup_combiner_functions_32"],
                              domain="every (s,m,d) in 2^96 with the cell's alphas forced to 255; every other flag bit",
                              timeout=600, min_props=2, unwind=2))
    # the opacity *flags* (compute_image_info: IS_OPAQUE / SAMPLES_OPAQUE only if every contributing sample has alpha 1):
    # harness/C09/info.c, written by the image helper
    # (lead) route D: the gradient stop loop of compute_image_info for ANY number of stops
    for t in ("LINEAR", "CONICAL", "RADIAL"):
        tpl = {"assigns": "i, flags",
               "invariants": "0 <= i && i <= image->gradient.n_stops && (flags & 8192u ? (g_k < i ==> image->gradient.stops[g_k].color.alpha == 65535) : 1) && "
                             "((flags | 8192u) == (__CPROVER_loop_entry(flags) | 8192u))",
               "decreases": "image->gradient.n_stops - i", "vars": ["i", "flags", "image", "g_k=g_k"], "headers": []}
        js.append(Job("infoD.opaque.%s.any_stop_count" % t.lower(), "C09/info_d.c", route="D", enforce="compute_image_info",
                      loops={"compute_image_info": [tpl]}, defines={"VC_TYPE": t}, cbmc_flags=["--no-signed-overflow-check"],
                      kind="proof", functions=["compute_image_info"], timeout=900, min_props=10,
                      domain="enforced function contract + loop invariant: gradient with any 1 <= n_stops <= 2^20, no transform: IS_OPAQUE => the "
                             "ghost stop is opaque, repeat != NONE, no component alpha, no convolution filter; assigns flags and format code only"))
    try:
        import C09_info
        js += C09_info.jobs(tier)
    except ImportError:
        pass
    return js


META = {
    "level": "proof",
    "trusted_base": [],
    "assumptions": [
        "operator reduction is checked against the real 8-bit combiners (pixman-combine32.c) one pixel at a time; C01's scanline contracts lift a pixel fact to any width",
        "SATURATE row (float-only operator) is covered only by optfn (cell selection), not by a pixel equivalence",
    ],
    "not_covered": ["SATURATE reduction vs float combiners", "agreement of the *routines* chosen for alpha-less vs alpha formats beyond C02's kernel coverage"],
}
