"""C14 — rendering depends only on an image's current properties, never on its history.

Decomposition (DESIGN.md §5 C14):
  (1) every setter of pixman-image.c:  (every property field unchanged)  OR  common.dirty,  stated over the
      stored values (so the early-return comparisons are covered), and a setter never writes derived state;
  (2) _pixman_image_validate: afterwards not dirty (alpha map included), hook called after the flags;
  (3) compute_image_info / gradient_property_changed NON-INTERFERENCE: the derived state is a function of
      the property fields alone (relational, two images with equal properties and different histories).
(1)+(2)+(3): after any history, validate yields the derived state a fresh image with the same properties gets.
"""
from vdriver import Job

HEAP = ["--memory-leak-check", "--pointer-check"]
# compute_image_info line 362: (t[0][0] + t[0][1]) is a signed addition of two arbitrary 16.16 values
NOOVF = ["--no-signed-overflow-check"]
TYPES = [("bits", 0), ("linear", 1), ("conical", 2), ("radial", 3), ("solid", 4)]
BUILT = "hand-built image, every field symbolic (any type, any old flags/dirty, each owned block present or absent)"
OVF_NOTE = ("signed-overflow check off in this job: compute_image_info adds two arbitrary 16.16 matrix entries "
            "(pixman-image.c:362), which overflows for |t00 + t01| >= 2^31 (reported, not part of C14)")

SIMPLE = [(2, "set_repeat"), (4, "set_source_clipping"), (5, "set_indexed"), (7, "set_component_alpha"),
          (8, "set_accessors"), (11, "set_has_client_clip"), (12, "set_destroy_function"), (13, "set_dither"),
          (14, "set_dither_offset")]


def jobs(tier):
    js = []
    for code, fn in SIMPLE:
        js.append(Job("setter." + fn, "C14/setter.c", defines={"VS_FN": code}, kind="proof", cbmc_flags=HEAP, unwind=11,
                      timeout=300, min_props=6, functions=["pixman_image_" + fn],
                      assumptions=(["set_indexed: image is a BITS image (the setter writes bits.indexed unconditionally)"]
                                   if fn == "set_indexed" else []),
                      domain=BUILT + "; every argument value"))
    # the setters that replace owned buffers and the alpha-map setter: harnesses shared with C20
    js.append(Job("setter.set_transform", "C20/setters.c", defines={"VI_FN": 1}, kind="proof", cbmc_flags=HEAP, unwind=40,
                  timeout=600, min_props=10, functions=["pixman_image_set_transform"],
                  domain="argument NULL / any matrix / the stored pointer; allocation may fail; " + BUILT))
    js.append(Job("setter.set_filter", "C20/setters.c", defines={"VI_FN": 2}, kind="bounded",
                  bound="caller's parameter array <= 8 words", cbmc_flags=HEAP, unwind=14, timeout=600, min_props=10,
                  functions=["pixman_image_set_filter"],
                  assumptions=["SEPARABLE_CONVOLUTION only with a non-NULL block of >= 4 header words, sizes <= 1024, phase bits <= 8 (API)"],
                  domain="any filter code, params NULL or <= 8 words, allocation may fail; " + BUILT))
    js.append(Job("setter.set_clip_region32", "C20/setters.c", defines={"VI_FN": 3, "IH_MEMMOVE_MODEL": 1}, kind="bounded",
                  bound="argument region <= 3 boxes", cbmc_flags=HEAP, unwind=14, timeout=600, min_props=10,
                  functions=["pixman_image_set_clip_region32"],
                  assumptions=["argument is a valid region (heap data block holds >= 1 rectangle)",
                               "CBMC only: memmove modelled by a word-wise forward copy (harness/C20/ih.h)"],
                  domain="argument NULL / one rectangle / empty / heap block; allocation may fail; " + BUILT))
    for sh in (0, 1):
        js.append(Job("setter.set_clip_region.shape%d" % sh, "C20/setters.c",
                      defines={"VI_FN": 4, "VI_RSHAPE": sh, "IH_PRUNE_VALIDATE": 1}, kind="bounded",
                      bound="16-bit argument region of <= 1 rectangle", cbmc_flags=HEAP, unwind=18, timeout=600, min_props=10,
                      extra_sources=["repo:pixman/pixman-region16.c"], functions=["pixman_image_set_clip_region"],
                      domain="argument NULL or a 16-bit region of <= 1 rectangle; " + BUILT))
    sels = ((0, "detach"), (1, "fresh"), (2, "same"))
    if tier == "quick":
        sels = ((0, "detach"), (1, "fresh"))
    for sel, sname in sels:
        js.append(Job("setter.set_alpha_map." + sname, "C20/alpha_map.c", defines={"VI_SEL": sel}, kind="proof",
                      cbmc_flags=HEAP, unwind=11, timeout=900, min_props=12, functions=["pixman_image_set_alpha_map"],
                      assumptions=["reference and attachment counts below INT32_MAX"],
                      domain="img + optional old map; argument NULL / fresh image / the attached map; " + BUILT))
    # validate and non-interference, one image type per query
    for tname, t in TYPES:
        grad = t in (1, 2, 3)
        kind, bound = ("bounded", "gradient with <= 3 stops") if grad else ("proof", "")
        js.append(Job("validate." + tname, "C14/validate.c", defines={"VV_MODE": 1, "VI_TYPE": t}, kind=kind, bound=bound,
                      cbmc_flags=HEAP + NOOVF, unwind=11, timeout=600, min_props=8,
                      functions=["_pixman_image_validate", "compute_image_info"], assumptions=[OVF_NOTE],
                      domain=BUILT + ", optional alpha map (img_wf: the map has no map of its own); type " + tname))
        js.append(Job("noninterference.info." + tname, "C14/validate.c", defines={"VV_MODE": 2, "VI_TYPE": t}, kind=kind,
                      bound=bound, cbmc_flags=HEAP + NOOVF, unwind=11, timeout=600, min_props=4,
                      functions=["compute_image_info"], assumptions=[OVF_NOTE],
                      domain="two images with equal property fields, arbitrary different flags/extended_format_code/dirty/"
                             "ref_count/alpha_count/client_clip/destroy callback; type " + tname))
        if grad:
            js.append(Job("noninterference.sentinels." + tname, "C14/validate.c", defines={"VV_MODE": 3, "VI_TYPE": t},
                          kind="bounded", bound="gradient with <= 3 stops", cbmc_flags=HEAP + NOOVF, unwind=11, timeout=600,
                          min_props=4, functions=["gradient_property_changed"],
                          domain="two gradients with equal repeat and stops, arbitrary old sentinel stops; type " + tname))
    return js


META = {
    "level": "proof",
    "trusted_base": ["harness/C20/ih.h ih_props: the enumeration of property fields (transform, repeat, filter+params, clip, "
                     "have_clip, clip_sources, alpha map + origin, component alpha, palette, accessors, dither) versus derived "
                     "state (flags, extended_format_code, fetch/store pointers, gradient sentinels)"],
    "assumptions": [
        "enumeration of derived state is by reading (DESIGN.md §5 C14)",
        "client_clip, destroy_func/destroy_data, ref_count, alpha_count are not properties in the sense of the disjunction: "
        "pixman_image_set_has_client_clip / set_destroy_function do not mark the image dirty; the non-interference jobs prove "
        "that compute_image_info does not depend on them (client_clip is read directly by pixman.c at composite time)",
        "bits_image_property_changed / _pixman_bits_image_setup_accessors non-interference w.r.t. old fetch/store pointers is not "
        "in this check (pixman-bits-image.c/pixman-access.c: C10 builds the accessor tables)",
        "fast-path cache keyed by exact flags: C02",
    ],
    "not_covered": ["_pixman_bits_image_setup_accessors non-interference", "iterator-local caches (live within one composite)",
                    "pixman_image_set_clip_region with > 1 rectangle"],
}
