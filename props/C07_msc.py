from vdriver import Job
def jobs(tier):
    js=[]
    for w in (33,):
        js.append(Job("image_wide32.w%d.h1" % w, "C07/msc_image_wide.c", defines={"VC_W": w, "VC_H": 1}, kind="bounded",
                      bound="w", unwind=70, timeout=900, min_props=8))
    return js
META_EXTRA = {"trusted_base": [], "assumptions": [], "not_covered": []}
META = dict(level="proof", **META_EXTRA)
