"""C07 (extension msc) — init_from_image beyond 3 pixels, modularly (seed C07-3: widths > 32 with a trailing
partial word).  Exposes jobs(tier) / META_EXTRA for props/C07.py to merge; standalone: bin/check C07_msc."""
from vdriver import Job

STUB = ("image_scan.*: bitmap_addrect (static inline helper of init_from_image) replaced by a recording stub that "
        "checks every call (legal arguments; runs non-empty, inside the row, in scan order, separated by gaps) and "
        "tracks a ghost pixel; its effect on the region is not modelled in these jobs (the helper itself: jobs "
        "addrect.*, the use of the stored rectangles: jobs image_e2e.*)")
ALLOC = ("image_e2e.*: allocator modelled for the verifier (malloc returns one typed block with room for 2*maxrects+2 "
         "boxes, every request checked to fit; realloc of that block returns it; no failure injected); natively the "
         "real allocator runs")


def jobs(tier):
    thorough = tier != "quick"
    js = []
    scan = [(33, 1), (40, 1), (64, 1), (65, 1), (33, 2)]
    if thorough:
        scan += [(w, 1) for w in (34, 35, 36, 37, 38, 39, 63, 95, 96)] + [(65, 2), (96, 2)]
    for b16 in (0, 1):
        sfx = "16" if b16 else "32"
        fn = "pixman_region%s_init_from_image" % ("" if b16 else "32")
        d = {"VR16": 1} if b16 else {}
        for w, h in scan:
            if b16 and not (thorough or (w, h) == (33, 1)):
                continue
            js.append(Job("image_scan%s.w%d.h%d" % (sfx, w, h), "C07/msc_image_scan.c", defines=dict(d, VC_W=w, VC_H=h),
                          kind="bounded", bound="a1 image %d x %d, every bit pattern incl. padding bits/word" % (w, h),
                          functions=[fn], unwind=34, timeout=300, min_props=7, assumptions=[STUB],
                          domain="width %d, height %d, all bits symbolic, stride with or without a padding word; ghost pixel in int x int: "
                                 "in a run handed to bitmap_addrect <=> bit set; runs maximal, in scan order" % (w, h)))
        # ---- the helper against the contract the decomposition relies on
        combos = [(0, 0), (1, 1), (2, 2), (2, 3)] + ([(1, 2), (3, 3), (3, 4)] if thorough else [])
        for n, size in combos:
            if b16 and not (thorough or (n, size) == (2, 2)):
                continue
            js.append(Job("addrect%s.n%d.size%d" % (sfx, n, size), "C07/msc_addrect.c", defines=dict(d, VC_N=n, VC_SIZE=size),
                          kind="bounded", bound="region with %d rectangles in a block of %d" % (n, size),
                          functions=["bitmap_addrect", "pixman_rect_alloc"], unwind=6, timeout=600, min_props=8,
                          cbmc_flags=["--pointer-check", "--bounds-check", "--memory-leak-check"],
                          domain="any existing boxes/extents, any new box in int^4, any allocation-failure pattern: skip / append / NULL+broken"))
        # ---- end to end at narrow widths, two rows (row coalescing, extents, normalisation), allocator modelled
        for w, h in ([(4, 2), (2, 3)] + ([(6, 2), (8, 2), (5, 1), (3, 3)] if thorough else [])):
            if b16 and not thorough:
                continue
            js.append(Job("image_e2e%s.w%d.h%d" % (sfx, w, h), "C07/msc_image_wide.c", defines=dict(d, VC_W=w, VC_H=h),
                          kind="bounded", bound="a1 image %d x %d, every bit pattern" % (w, h),
                          functions=[fn, "bitmap_addrect", "pixman_rect_alloc"], unwind=max(10, w * h // 2 + 2), timeout=900, min_props=10,
                          assumptions=[ALLOC],
                          domain="width %d, height %d, all bits symbolic; any point in int x int: in region <=> bit set; canonical, equal rows coalesced" % (w, h)))
    # ---- "band, gap, same band again" at width 8 (seed C06-4: a later line merged into a band above an empty line)
    if thorough:
        js.append(Job("image_e2e32.w8.h3.gap", "C07/msc_image_wide.c", defines={"VC_W": 8, "VC_H": 3, "VC_GAP": 1}, kind="bounded",
                      bound="a1 image 8 x 3 with row 1 clear and row 2 == row 0 (every pattern of row 0, padding bits free)",
                      functions=["pixman_region32_init_from_image", "bitmap_addrect", "pixman_rect_alloc"], unwind=14, timeout=1800, min_props=10,
                      assumptions=[ALLOC, "image_e2e32.w8.h3.gap: row 1 clear, row 2 equal to row 0 (the unrestricted 3-row cases are image_e2e*.w2.h3 / w3.h3)"],
                      domain="any point in int x int: in region <=> bit set; canonical; the two bands stay separate"))
    return js


META_EXTRA = {
    "trusted_base": ["spec/spec_regionq.h RQ_A1_BIT: a1 bit order of the build, from the property text"],
    "assumptions": [STUB, ALLOC],
    "not_covered": ["init_from_image end to end (real bitmap_addrect + real allocator) beyond width 3: decomposed into "
                    "image_scan.* (scan logic, wide), addrect.* (helper contract), image_e2e.* (narrow, allocator modelled)"],
}
META = {"level": "proof", "trusted_base": META_EXTRA["trusted_base"], "assumptions": META_EXTRA["assumptions"],
        "not_covered": META_EXTRA["not_covered"]}
