"""C15 — any allocation failure is survived: no crash, no leak, failure is reported.

Allocation failure is explicit and replayable (harness/common/vh_alloc.h): the k-th allocation call of the
code under check fails iff bit k of the 32-bit input in_failmask is set, so single, k-th and persistent
failures are all covered by one symbolic input; cbmc --memory-leak-check (ASan leak detector in the
replay) decides "no leak".  Region jobs live here; the image / glyph / filter jobs with a symbolic
in_failmask are the jobs of C20, C17 and C18 and are pulled in from those modules so that the C15 evidence
names every function checked under allocation failure."""
import importlib
from vdriver import Job

LEAK = ["--memory-leak-check"]


def region_jobs(tier):
    js = []
    js.append(Job("region.copy.alloc_failure", "C15/region_alloc.c", defines={"VC_CASE": 1}, kind="proof", cbmc_flags=LEAK,
                  functions=["pixman_region32_copy", "pixman_rect_alloc", "pixman_break", "alloc_data", "pixman_region32_fini"],
                  domain="2-rectangle source anywhere in +-10^6, single-rectangle destination, every failure mask", unwind=4,
                  timeout=600, min_props=5))
    js.append(Job("region.init_rects.alloc_failure", "C15/region_alloc.c", defines={"VC_CASE": 2}, kind="proof", cbmc_flags=LEAK,
                  functions=["pixman_region32_init_rects", "pixman_rect_alloc", "pixman_break"],
                  domain="2 boxes anywhere in +-10^6, every allocation fails", unwind=4, timeout=600, min_props=2))
    # (lead) the array allocator itself: create / grow, failure releases what the region owned (seed C15-4)
    for shape, nm in ((0, "inline"), (1, "empty"), (2, "heap")):
        js.append(Job("region.rect_alloc.%s" % nm, "C15/rect_alloc.c", defines={"VC_SHAPE": shape, "VC_SIZE": 3},
                      kind="proof" if shape < 2 else "bounded", bound="" if shape < 2 else "existing array of 3 slots, 0..3 rectangles, growth by 1..4",
                      cbmc_flags=LEAK, functions=["pixman_rect_alloc", "alloc_data", "pixman_break", "PIXREGION_SZOF"],
                      domain="region %s, n in 1..4, every failure mask, ghost rectangle with any coordinates" % nm, unwind=6, timeout=600, min_props=4))
    names = ["union(broken,r)", "union(r,broken)", "intersect(broken,r)", "intersect(r,broken)", "inverse(broken)",
             "subtract(r,broken)", "copy(broken)", "union_rect(broken)"]
    for op, nm in enumerate(names):
        js.append(Job("region.propagate.%d.%s" % (op, nm.replace("(", "_").replace(")", "").replace(",", "_")), "C15/region_alloc.c",
                      defines={"VC_CASE": 3, "VC_OP": op}, kind="proof", cbmc_flags=LEAK,
                      functions=["pixman_region32_" + nm.split("(")[0], "pixman_break"],
                      domain="broken operand as pixman_break leaves it; other operand a 4x4 rectangle anywhere in +-10^6", unwind=4,
                      timeout=600, min_props=2))
    js.append(Job("finding.region.propagate.subtract_broken_minuend", "C15/region_alloc.c", defines={"VC_CASE": 4}, kind="proof",
                  cbmc_flags=LEAK, functions=["pixman_region32_subtract"], domain="broken minuend, valid subtrahend", unwind=4,
                  timeout=600, min_props=2))
    return js


# jobs of other properties that run under a symbolic allocation-failure mask: (module, name filter)
BORROW = [("C01", lambda n: n.startswith("glue.rect")), ("C20", lambda n: n.startswith("setter")), ("C17", lambda n: n.startswith(("api.insert.n", "lifecycle", "composite_glyphs"))), ("C12", lambda n: n.startswith("composite_trapezoids")), ("C18", lambda n: n.startswith(("header.block", "chain.create"))),
          ]   # (the allocating setters of C14 are the same harnesses as C20's)


def jobs(tier):
    js = region_jobs(tier)
    # (helper opv) bail paths of pixman_op and validate under injected allocation / union failures
    try:
        import C05_opv
        js += [j for j in C05_opv.jobs(tier) if "fail" in j.name]
    except ImportError:
        pass
    for mod, flt in BORROW:
        try:
            m = importlib.import_module(mod)
        except Exception:
            continue
        for j in m.jobs(tier):
            if flt(j.name):
                j.name = "%s:%s" % (mod, j.name)
                js.append(j)
    return js


META = {
    "level": "proof",
    "trusted_base": ["harness/common/vh_alloc.h: allocation calls beyond the 32nd of one API call never fail (stated bound)"],
    "assumptions": ["only the functions listed under functions_under_contract are checked under allocation failure; the quantifier "
                    "'every allocation site reached by every API entry point' is covered for those only",
                    "pixman_op / validate bail paths: covered by the opv jobs (*.allocfail, *.fail) for operands of <= 3 rectangles / <= 5 boxes with y coordinates "
                    "enumerated as order types (bounded)"],
    "not_covered": [
                    "store_scanline_generic_float"],
}
