"""C02 — every implementation (general, C fast paths, SSE2/SSSE3/MMX) is bit-identical.

"A == B" is decided as "A meets S and B meets S", S = the C01 per-channel spec (spec/spec_un8.h,
spec_op.h).  The general path's combiners are C01's subject; here:
  (1) dispatch is a function of the request (first match in chain order, cache is a sound memo),
      delegation down the chain, PIXMAN_DISABLE parsing, wholeops;
  (2) the SSE2 combiners (pixman-sse2.c) under trusted C models of the __builtin_ia32_* builtins;
  (3) C fast paths of pixman-fast-path.c on small hand-built images (fastpath.c: a8r8g8b8 / a8; fastpath_fmt.c: any
      direct-colour format through the literal WIDEN / NARROW of spec_format.h);
  (4) whole-row sse2_composite_* routines (sse2_composite.c): head pixel + one vector body + tail pixel at a fixed phase.
Row jobs of (3b)/(4) are scheduled only if they have a measured passing run (MEASURED).
The evidence carries the list of every fast-path table entry of sse2 / fast with its status and job names.
"""
import os, re, json
from vdriver import Job, PyJob, REPO, VERIF, sh, include_flags

PC = ["--pointer-check", "--bounds-check"]
RL = ["harness/C02/replay_link.c"]

# (pixman op, spec code)
SPOP = {"CLEAR": 0, "SRC": 1, "DST": 2, "OVER": 3, "OVER_REVERSE": 4, "IN": 5, "IN_REVERSE": 6, "OUT": 7,
        "OUT_REVERSE": 8, "ATOP": 9, "ATOP_REVERSE": 10, "XOR": 11, "ADD": 12}
SSE2_U = ["OVER", "OVER_REVERSE", "IN", "IN_REVERSE", "OUT", "OUT_REVERSE", "ATOP", "ATOP_REVERSE", "XOR", "ADD"]
SSE2_CA = ["SRC", "OVER", "OVER_REVERSE", "IN", "IN_REVERSE", "OUT", "OUT_REVERSE", "ATOP", "ATOP_REVERSE", "XOR", "ADD"]
MODEL_TRUST = ["SSE2 intrinsics: models/sse2_models_combine.h (Intel SDM lane semantics of 21 __builtin_ia32_* builtins) is trusted; "
               "native replay and models.selftest run the real instructions"]


def sse2_fn(op, mode):
    return "sse2_combine_%s_%s" % (op.lower(), "ca" if mode == 2 else "u")


def sse2_job(kind_name, op, mode, ch, w, doff, soff=0, moff=0, k=None, timeout=900, kind="proof", bound=""):
    d = {"VC_PIXOP": "PIXMAN_OP_" + op, "VC_OP": SPOP[op], "VC_MODE": mode, "VC_CH": ch, "VC_W": w, "VC_DOFF": doff,
         "VC_SOFF": soff, "VC_MOFF": moff}
    if k is not None:
        d["VC_K"] = k
    name = "sse2.%s.%s.m%d.ch%d" % (kind_name, sse2_fn(op, mode), mode, ch)
    dom = {"head": "width 1, destination misaligned (scalar head loop), every (s,m,d)",
           "tail": "width 1, destination aligned (scalar tail loop), every (s,m,d)",
           "body4": "width 4, destination 16-byte aligned: exactly one pass through the 4-pixel vector body, every 3x128 bits of (s,m,d), symbolic lane"}.get(
               kind_name, "width %d, destination phase %d, source phase %d, mask phase %d, ghost pixel %s" % (w, doff, soff, moff, k))
    return Job(name, "C02/sse2_combine.c", defines=d, kind=kind, bound=bound, unwind=2 if w <= 4 else 4,
               cbmc_flags=["--unwindset", "harness.0:%d,harness.1:%d,harness.2:%d" % (w + 12, w + 12, w + 12)] + (PC if w > 4 or ch == 4 else []),
               functions=[sse2_fn(op, mode), "_pixman_implementation_create_sse2"], extra_sources=RL,
               domain=dom + (", channel %d" % ch if ch < 4 else ", frame: guard words / source / mask unchanged"),
               timeout=timeout, min_props=2, assumptions=MODEL_TRUST)


def sse2_jobs(tier):
    js = []
    quick = tier == "quick"
    # ---- per-pixel kernels (head / tail scalar loops) and the 4-pixel vector body, no mask
    for op in SSE2_U:
        for ch in (0, 1, 2, 3):
            if quick and (ch in (0, 2) or op not in ("OVER", "IN", "ADD", "OUT_REVERSE", "ATOP", "XOR") or (ch == 1 and op in ("ATOP", "XOR"))):
                continue  # atop/xor colour channels: 270-330 s each
            js.append(sse2_job("head", op, 0, ch, 1, 1, k=0, timeout=900))
            if not quick:
                js.append(sse2_job("tail", op, 0, ch, 1, 0, k=0, timeout=900))
            if quick and op not in ("OVER", "ADD", "IN"):
                continue
            if op in ("ATOP", "ATOP_REVERSE", "XOR") and ch < 3:
                # colour channels of the two-product operators with a symbolic lane: > 1200 s each (undecided in a full thorough
                # run).  Kept: channel 1 at the fixed lane 2 (bounded); channels 0 and 2 of the vector body of these three
                # combiners are not scheduled (their head / tail pixel kernels are, every channel)
                if ch == 1:
                    js.append(sse2_job("body4.k2", op, 0, 1, 4, 0, k=2, timeout=3600, kind="bounded",
                                       bound="4-pixel vector body, lane 2 only (every 3x128 bits of s, m, d)"))
                continue
            js.append(sse2_job("body4", op, 0, ch, 4, 0, timeout=1200))
        if not quick or op == "OVER":
            js.append(sse2_job("body4", op, 0, 4, 4, 0, timeout=900))
    if not quick:
        # masked / component-alpha kernels: 200-300 CPU seconds per query (three 16-bit lane multipliers whose
        # operand ranges the SAT solver has to discover); a chosen subset, thorough tier only
        for op, mode in (("OVER", 1), ("OVER", 2), ("ADD", 2)):
            for ch in (1, 3):
                js.append(sse2_job("head", op, mode, ch, 1, 1, k=0, timeout=3600))
        js.append(sse2_job("body4", "OVER", 1, 3, 4, 0, k=2, timeout=3600))
    # ---- row structure of sse2_combine_over_u: head + body + tail, fixed case per query (bounded)
    cases = [(9, 3, 1, 0)] if quick else [(9, 3, 1, 0), (8, 1, 0, 5), (9, 2, 3, 8), (8, 0, 2, 3)]
    for w, doff, soff, k in cases:
        j = sse2_job("row.w%d.d%d.s%d.k%d" % (w, doff, soff, k), "OVER", 0, 1, w, doff, soff=soff, k=k, timeout=2400,
                     kind="bounded", bound="width %d, destination phase %d, source phase %d, ghost pixel %d fixed; pixels symbolic" % (w, doff, soff, k))
        js.append(j)
    if not quick:
        j = sse2_job("row.w9.d3.s1.frame", "OVER", 0, 4, 9, 3, soff=1, k=0, timeout=2400, kind="bounded",
                     bound="width 9, destination phase 3, source phase 1; pixels symbolic")
        js.append(j)
    return js


def dispatch_jobs(tier):
    js = []
    quick = tier == "quick"
    cfgs = [(3, 3, c) for c in ((-1, 0, 5) if quick else range(-1, 8))] + ([] if quick else [(2, 3, c) for c in range(-1, 8)])
    for ni, t, case in cfgs:
        js.append(Job("lookup.first_match.ni%d.t%d.%s" % (ni, t, "miss" if case < 0 else "hit%d" % case), "C02/lookup.c",
                      defines={"VC_NI": ni, "VC_T": t, "VC_CASE": case}, unwind=10,
                      cbmc_flags=PC, kind="bounded", extra_sources=RL,
                      bound="%d implementations x %d symbolic table entries (+ optional catch-all + terminator)" % (ni, t),
                      functions=["_pixman_implementation_lookup_composite"],
                      domain="every request (op, 3 formats, 3 flag words in 2^32 each), every table content, every content of the 8 thread-local cache slots satisfying cache_ok; case: "
                             + ("no slot holds this request" if case < 0 else "first slot holding exactly this request is %d" % case) + " (quick tier runs 3 of the 9 cases)",
                      timeout=3600, min_props=7))
    n = 6
    js.append(Job("delegate.combiner", "C02/delegate.c", defines={"VC_COMBINER": None, "VC_CHAIN": n}, unwind=n + 2, cbmc_flags=PC,
                  kind="bounded", bound="fallback chain length <= %d (the longest chain built on x86 has 6)" % n, extra_sources=RL,
                  functions=["_pixman_implementation_lookup_combiner"],
                  domain="every chain length 0..%d, every subset of (implementation, slot) having a routine, every operator, narrow/component_alpha in {0,1}" % n,
                  assumptions=["lookup_combiner: component_alpha and narrow are 0 or 1 (all callers pass boolean expressions)"],
                  timeout=900, min_props=5))
    js.append(Job("delegate.iter_init", "C02/delegate.c", defines={"VC_ITER": None, "VC_CHAIN": 4}, unwind=8, cbmc_flags=PC,
                  kind="bounded", bound="fallback chain length <= 4, <= 2 entries per iterator table", extra_sources=RL,
                  functions=["_pixman_implementation_iter_init"],
                  domain="every chain length, every subset of implementations with a table, every table content, every format/flags/geometry, NULL and non-NULL image",
                  timeout=900, min_props=4))
    for which, d in (("fill", {}), ("blt", {"VC_BLT": None})):
        dd = dict(d)
        dd["VC_CHAIN"] = n
        js.append(Job("delegate.%s" % which, "C19/delegate.c", defines=dd, unwind=n + 2, cbmc_flags=PC, kind="bounded",
                      bound="fallback chain length <= %d" % n, functions=["_pixman_implementation_%s" % which],
                      domain="harness shared with C19: every chain length, subset, return pattern, argument value", timeout=900, min_props=6))
    names = ["fast", "sse2"] if quick else ["fast", "mmx", "sse2", "ssse3", "wholeops"]
    envmax = 8 if quick else 12
    for nm in names:
        js.append(Job("disabled.%s" % nm, "C02/disabled.c", defines={"VC_DISABLED": None, "VC_NAME": '"%s"' % nm, "VC_ENVMAX": envmax},
                      unwind=envmax + 3, cbmc_flags=PC, kind="bounded", bound="PIXMAN_DISABLE of at most %d characters" % envmax,
                      functions=["_pixman_disabled"], extra_sources=RL,
                      domain="every byte string of length <= %d (and the unset variable) vs `name is a space-separated token'" % envmax,
                      timeout=3600, min_props=3))
    envs = [None, "", "fast", "wholeops", "fast wholeops", "wholeops sse2 fast", "sse2", "wholeopsx fastx"]
    for ei, e in enumerate(envs):
        for narch in ((3,) if quick else (0, 1, 2, 3)):
            d = {"VC_CHOOSE": None, "VC_ENVMAX": 20, "VC_NARCH": narch}
            if e is None:
                d["VC_ENVUNSET"] = None
            else:
                d["VC_ENVSTR"] = '"%s"' % e
            js.append(Job("choose.env%d.arch%d" % (ei, narch), "C02/disabled.c", defines=d, unwind=22, cbmc_flags=PC, kind="bounded",
                          bound="PIXMAN_DISABLE = %s (one literal per query; token semantics for all strings: disabled.* jobs); %d CPU-specific implementations" % (repr(e), narch),
                          functions=["_pixman_choose_implementation"], extra_sources=RL,
                          domain="chain order, toplevel, wholeops empties every table but the last, combiners/iterators/blt/fill untouched",
                          timeout=600, min_props=6))
    return js


FP = {1: ("fast_composite_over_8888_8888", 3, 0), 2: ("fast_composite_add_8_8", 12, 0), 3: ("fast_composite_over_n_8_8888", 3, 1),
      4: ("fast_composite_src_memcpy", 1, 0), 5: ("fast_composite_add_8888_8888", 12, 0)}


def fastpath_jobs(tier):
    js = []
    quick = tier == "quick"
    for fp, (fn, op, mode) in FP.items():
        if fp == 4:
            # fast_composite_src_memcpy: CBMC 6.11's memcpy model drops the last word of the 12-byte copy between the two
            # word arrays (pixel obligation fails in the verifier, native replay with ASan holds: a verifier artefact, not
            # a verdict) -> not scheduled, listed under not_covered
            continue
        chans = (3, 4) if fp == 2 else (0, 1, 2, 3, 4)
        for ch in chans:
            if quick and (fp in (3, 5) or ch in (0, 2) or (fp == 4 and ch == 3)):
                continue
            if fp == 3 and ch in (0, 1, 2):
                # colour channels of over_n_8_8888 (in() followed by over(): two chained products per channel): with three
                # symbolic x offsets > 3600 s each (undecided in a full thorough run); with fixed offsets (harness mode of
                # fastfmt_jobs, fast.fast_composite_over_n_8_8888.x012.ch<c>) not finished after 7 CPU minutes when stopped:
                # NOT scheduled.  Alpha channel and frame stay.
                continue
            w = 3
            offs = [None]
            if fp == 4:  # memcpy path: fixed x offsets per query (see harness comment)
                offs = [(0, 1)] if quick else [(0, 1), (2, 1), (1, 2)]
            for off in offs:
              d = {"VC_FP": fp, "VC_OP": op, "VC_MODE": mode, "VC_CH": ch, "VC_W": w}
              if off:
                  d["VC_SX"], d["VC_DX"] = off
              js.append(Job("fast.%s%s.ch%d" % (fn, ".sx%d.dx%d" % off if off else "", ch), "C02/fastpath.c", defines=d,
                          unwind=w + 6, cbmc_flags=PC, kind="bounded", bound="width %d, height 1%s" % (w, ", x offsets fixed" if off else ""), functions=[fn], extra_sources=RL,
                          domain="one row of %d pixels, x offsets of src/mask/dest symbolic in [0,2], ghost pixel symbolic, every pixel value; %s"
                                 % (w, "channel %d" % ch if ch < 4 else "frame"),
                          assumptions=(["fast_composite_over_n_8_8888: _pixman_image_get_solid replaced by a stub returning the symbolic colour"] if fp == 3 else []),
                          timeout=3600 if mode else 1800, min_props=2))
    return js


# ---- more C fast paths, any direct-colour format (harness/C02/fastpath_fmt.c): result field == NARROW (OP (WIDEN ...))
# routine: (spec op, mode, source format | None = solid, mask format, destination format, channels present in the destination,
#           x base of 1-bpp images, quick-tier channels)
FPF = {
    "fast_composite_src_x888_8888":       ("SRC", 0, "x8r8g8b8", None, "a8r8g8b8", (0, 1, 2, 3), 0, (3,)),
    "fast_composite_in_8_8":              ("IN", 0, "a8", None, "a8", (3,), 0, (3,)),
    "fast_composite_in_n_8_8":            ("IN", 1, None, "a8", "a8", (3,), 0, ()),
    "fast_composite_add_n_8_8":           ("ADD", 1, None, "a8", "a8", (3,), 0, ()),
    "fast_composite_over_8888_0565":      ("OVER", 0, "a8r8g8b8", None, "r5g6b5", (0, 1, 2), 0, (1,)),
    "fast_composite_over_n_8_0565":       ("OVER", 1, None, "a8", "r5g6b5", (0, 1, 2), 0, ()),
    "fast_composite_add_0565_0565":       ("ADD", 0, "r5g6b5", None, "r5g6b5", (0, 1, 2), 0, ()),
    "fast_composite_over_x888_8_8888":    ("OVER", 1, "x8r8g8b8", "a8", "a8r8g8b8", (0, 1, 2, 3), 0, ()),
    # colour channels only: alpha channel and frame with symbolic offsets are jobs of fastpath_jobs (VC_FP=3)
    "fast_composite_over_n_8_8888":       ("OVER", 1, None, "a8", "a8r8g8b8", (0, 1, 2), 0, ()),
    "fast_composite_over_n_8_0888":       ("OVER", 1, None, "a8", "r8g8b8", (0, 1, 2), 0, ()),
    "fast_composite_add_n_8888_8888_ca":  ("ADD", 2, None, "a8r8g8b8", "a8r8g8b8", (0, 1, 2, 3), 0, ()),
    "fast_composite_over_n_8888_8888_ca": ("OVER", 2, None, "a8r8g8b8", "a8r8g8b8", (0, 1, 2, 3), 0, ()),
    "fast_composite_over_n_8888_0565_ca": ("OVER", 2, None, "a8r8g8b8", "r5g6b5", (0, 1, 2), 0, ()),
    "fast_composite_add_1_1":             ("ADD", 0, "a1", None, "a1", (3,), 30, ()),
    "fast_composite_over_n_1_8888":       ("OVER", 1, None, "a1", "a8r8g8b8", (0, 1, 2, 3), 30, ()),
    "fast_composite_over_n_1_0565":       ("OVER", 1, None, "a1", "r5g6b5", (0, 1, 2), 30, ()),
}
# routines registered for several genuinely different destination / source layouts: one set of jobs per layout,
# job name fast.<routine>.<dest format>.ch<c>
FPF_MULTI = {
    "fast_composite_solid_fill": [("SRC", 0, None, None, f, ch, 30 if f == "a1" else 0, ()) for f, ch in
                                  (("a8r8g8b8", (5,)), ("r5g6b5", (5,)), ("a8", (5,)), ("a1", (5,)))],
    "fast_composite_src_memcpy": [("SRC", 0, f, None, f, ch, 0, ()) for f, ch in
                                  (("a8r8g8b8", (5,)), ("b8g8r8a8", (5,)), ("r5g6b5", (5,)), ("x1r5g5b5", (5,)), ("r8g8b8", (5,)), ("a8", (5,)))],
}
FPF_TIMEOUT = {}
# routines whose queries get FIXED x offsets (src, mask, dest): list of offset triples, one set of jobs each
FPF_FIXX = {}
FPF_FIXX_DEFAULT = [(0, 1, 2)]   # every masked routine (mode 1 / 2)


def fastfmt_jobs(tier):
    js = []
    quick = tier == "quick"
    w = 3
    todo = [(fn, "", v) for fn, v in FPF.items()] + [(fn, "." + v[4], v) for fn, vs in FPF_MULTI.items() for v in vs]
    for fn, tag, (op, mode, sfmt, mfmt, dfmt, chans, xbase, qch) in todo:
      for fix in (FPF_FIXX.get(fn) or (FPF_FIXX_DEFAULT if mode and not xbase else [None])):
        for ch in tuple(chans) + (4,):
            if quick and ch not in qch:
                continue
            if fn == "fast_composite_over_n_8_8888" and ch == 4:
                continue
            d = {"VC_FN": fn, "VC_OP": SPOP[op], "VC_MODE": mode, "VC_CH": ch, "VC_W": w, "VC_DFMT": dfmt,
                 "VC_SFMT": sfmt or "a8r8g8b8"}
            if sfmt is None:
                d["VC_SOLID"] = None
            if mfmt:
                d["VC_MFMT"] = mfmt
            if xbase:
                d["VC_XBASE"] = xbase
            xtag = ""
            if fix and ch != 4:
                d["VC_SX"], d["VC_MX"], d["VC_DX"] = fix
                xtag = ".x%d%d%d" % fix
            stubs = ["%s: _pixman_image_get_solid replaced by a stub returning the symbolic colour" % fn] if sfmt is None else []
            if fn == "fast_composite_src_memcpy":
                d["VC_OWN_MEMCPY"] = None
                stubs.append("fast_composite_src_memcpy: memcpy is a byte loop written in the harness (CBMC 6.11's library model of memcpy gives a "
                             "false alarm for a 12-byte copy between word arrays at symbolic offsets); the native replay runs the real memcpy")
            if fn == "fast_composite_solid_fill":
                stubs.append("fast_composite_solid_fill: pixman_fill replaced by a per-pixel store of the filler's low bpp bits (C19 covers pixman_fill)")
            xdom = ("x offsets of src/mask/dest fixed at %d/%d/%d" % fix if xtag else
                    "x offsets of src/mask/dest symbolic (3 x 3 x 2 values%s)" % (", 1-bpp rows start at bit %d..%d: the span crosses a 32-bit word" % (xbase, xbase + 2) if xbase else ""))
            js.append(Job("fast.%s%s%s.ch%d" % (fn, tag, xtag, ch), "C02/fastpath_fmt.c", defines=d,
                          unwind=max(w + 6, 26 if dfmt == "r8g8b8" else 0, 66 if "a1" in (dfmt,) else 0, 4 * w + 2 if fn == "fast_composite_src_memcpy" else 0),
                          cbmc_flags=PC, kind="bounded", bound="width %d, height 1%s" % (w, ", x offsets fixed" if xtag else ""), functions=[fn], extra_sources=RL,
                          domain="%s %s, %s, %s: one row of %d pixels, %s, ghost pixel symbolic, every pixel value; %s"
                                 % (op, sfmt or "solid", mfmt or "-", dfmt, w, xdom,
                                    "field of channel %d == NARROW (C01 spec (WIDEN src, WIDEN mask, WIDEN dest))" % ch if ch < 4 else
                                    "frame" if ch == 4 else "all defined bits == NARROW_PIX (WIDEN_PIX (source)) (SRC: no arithmetic)"),
                          assumptions=stubs,
                          timeout=FPF_TIMEOUT.get((fn, ch), 3600 if mode else 1800), min_props=2))
    return js


# ---- whole-row SSE2 composite routines (harness/C02/sse2_composite.c)
# geometry per destination bpp: (width, dest x, src x, mask x, row pixels): head 1 pixel, one vector body, tail 1 pixel
G32 = (6, 3, 1, 2, 12)        # 4-pixel body
G32W = (18, 3, 1, 2, 24)      # 16-pixel body (src_x888_8888)
G16 = (10, 7, 1, 2, 24)       # 8-pixel body
G8 = (18, 15, 1, 2, 48)       # 16-pixel body
G8A = (30, 11, 1, 2, 48)      # add_8_8: 1 byte head, combiner on 7 words at word phase 3 (1 + 4 + 2), 1 byte tail; 29 bytes after the
                              # head: (w & 0xfffc) = 28 differs from (w & 0xfff8) = 24 (a mutant of the tail offset survived width 26)
# routine: (op, mode, source format | "solid", mask format | "solid" | None, destination format, channels, geometry, ghost pixels
#           (None = symbolic), quick-tier channels)
S2C = {
    "sse2_composite_over_n_8888":         ("OVER", 0, "solid", None, "a8r8g8b8", (0, 1, 2, 3), G32, None, (1,)),
    "sse2_composite_over_8888_8888":      ("OVER", 0, "a8r8g8b8", None, "a8r8g8b8", (0, 1, 2, 3), G32, None, ()),
    "sse2_composite_add_8888_8888":       ("ADD", 0, "a8r8g8b8", None, "a8r8g8b8", (0, 1, 2, 3), G32, None, ()),
    "sse2_composite_add_n_8888":          ("ADD", 0, "solid", None, "a8r8g8b8", (0, 1, 2, 3), G32, None, ()),
    "sse2_composite_add_8_8":             ("ADD", 0, "a8", None, "a8", (3,), G8A, None, ()),
    "sse2_composite_add_n_8":             ("ADD", 0, "solid", None, "a8", (3,), G8, None, ()),
    "sse2_composite_in_8_8":              ("IN", 0, "a8", None, "a8", (3,), G8, (0, 8, 17), ()),
    "sse2_composite_in_n_8":              ("IN", 0, "solid", None, "a8", (3,), G8, (0, 8, 17), ()),
    "sse2_composite_src_x888_8888":       ("SRC", 0, "x8r8g8b8", None, "a8r8g8b8", (0, 1, 2, 3), G32W, None, ()),
    "sse2_composite_src_x888_0565":       ("SRC", 0, "x8r8g8b8", None, "r5g6b5", (0, 1, 2), G16, None, (1,)),
    "sse2_composite_over_n_0565":         ("OVER", 0, "solid", None, "r5g6b5", (0, 1, 2), G16, None, ()),
    "sse2_composite_over_8888_0565":      ("OVER", 0, "a8r8g8b8", None, "r5g6b5", (0, 1, 2), G16, None, ()),
    "sse2_composite_over_reverse_n_8888": ("OVER_REVERSE", 0, "solid", None, "a8r8g8b8", (0, 1, 2, 3), G32, None, ()),
    "sse2_composite_over_n_8_8888":       ("OVER", 1, "solid", "a8", "a8r8g8b8", (1, 3), G32, (0, 2, 5), ()),
    "sse2_composite_add_n_8_8888":        ("ADD", 1, "solid", "a8", "a8r8g8b8", (1, 3), G32, (0, 2, 5), ()),
    "sse2_composite_src_n_8_8888":        ("SRC", 1, "solid", "a8", "a8r8g8b8", (1, 3), G32, (0, 2, 5), ()),
    "sse2_composite_add_n_8_8":           ("ADD", 1, "solid", "a8", "a8", (3,), G8, (0, 8, 17), ()),
    "sse2_composite_in_n_8_8":            ("IN", 1, "solid", "a8", "a8", (3,), G8, (0, 8, 17), ()),
    "sse2_composite_over_8888_8_8888":    ("OVER", 1, "a8r8g8b8", "a8", "a8r8g8b8", (1, 3), G32, (0, 2, 5), ()),
    "sse2_composite_over_x888_8_8888":    ("OVER", 1, "x8r8g8b8", "a8", "a8r8g8b8", (1, 3), G32, (0, 2, 5), ()),
    "sse2_composite_over_8888_n_8888":    ("OVER", 1, "a8r8g8b8", "solid", "a8r8g8b8", (1, 3), G32, (0, 2, 5), ()),
    "sse2_composite_over_x888_n_8888":    ("OVER", 1, "x8r8g8b8", "solid", "a8r8g8b8", (1, 3), G32, (0, 2, 5), ()),
    "sse2_composite_over_n_8_0565":       ("OVER", 1, "solid", "a8", "r5g6b5", (1,), G16, (0, 4, 9), ()),
}
S2C_TIMEOUT = {}


def sse2c_jobs(tier):
    js = []
    quick = tier == "quick"
    for fn, (op, mode, sfmt, mfmt, dfmt, chans, geo, ks, qch) in S2C.items():
        w, dx, sx, mx, row = geo
        for ch in tuple(chans) + (4,):
            if quick and ch not in qch:
                continue
            for k in ((None,) if (ks is None or ch == 4) else ks):
                d = {"VC_FN": fn, "VC_PIXOP": "PIXMAN_OP_" + op, "VC_OP": SPOP[op], "VC_MODE": mode, "VC_CH": ch, "VC_W": w, "VC_DX": dx,
                     "VC_SX": sx, "VC_MX": mx, "VC_ROW": row, "VC_DFMT": dfmt, "VC_SFMT": "a8r8g8b8" if sfmt == "solid" else sfmt}
                if sfmt == "solid":
                    d["VC_SOLID"] = None
                if mfmt == "solid":
                    d["VC_MSOLID"] = None
                    d["VC_MFMT"] = "a8r8g8b8"
                elif mfmt:
                    d["VC_MFMT"] = mfmt
                if k is not None:
                    d["VC_K"] = k
                stubs = []
                if "solid" in (sfmt, mfmt):
                    stubs.append("%s: _pixman_image_get_solid replaced by a stub returning the symbolic colour" % fn)
                if fn in ("sse2_composite_add_n_8888", "sse2_composite_add_n_8", "sse2_composite_in_n_8"):
                    stubs.append("%s: pixman_fill (colour 0 / ~0 shortcut) replaced by a per-pixel store of the filler (C19 covers pixman_fill)" % fn)
                js.append(Job("sse2c.%s%s.ch%d" % (fn, "" if k is None else ".k%d" % k, ch), "C02/sse2_composite.c", defines=d,
                              unwind=row + 2, cbmc_flags=PC, kind="bounded", object_bits=10,
                              bound="width %d, height 1, destination x %d (16-byte phase fixed: 1 head pixel, one vector body, 1 tail pixel), source x %d, mask x %d%s"
                                    % (w, dx, sx, mx, "" if k is None else ", ghost pixel %d" % k),
                              functions=[fn, "_pixman_implementation_create_sse2"], extra_sources=RL,
                              domain="%s %s, %s, %s: every pixel value, ghost pixel %s; %s"
                                     % (op, sfmt, mfmt or "-", dfmt, "symbolic" if k is None else "fixed",
                                        "field of channel %d == NARROW (C01 spec (WIDEN src, WIDEN mask, WIDEN dest))" % ch if ch < 4 else "frame"),
                              assumptions=MODEL_TRUST + stubs, timeout=S2C_TIMEOUT.get((fn, ch), 3600), min_props=2))
    return js


# ---------------------------------------------------------------- fast-path table scan (evidence)
def scan_tables():
    """every entry of sse2_fast_paths / c_fast_paths in the source text, with the status this property gives its routine"""
    out = {}
    proved_kernel = {"sse2_composite_over_8888_8888": "kernel proved (row = sse2_combine_over_u: kernel proved, row bounded)",
                     "sse2_composite_add_8888_8888": "kernel proved (row = sse2_combine_add_u kernels)"}
    other = {"sse2_composite_copy_area": "C19 (sse2_blt: blt.sse2.* jobs of property C19)"}
    # routine -> operand formats the row jobs use; only routines with at least one scheduled pixel (not only frame) job count
    sched = scheduled_row_jobs()
    fmts_of = {}
    for k in FP:
        if k != 4:
            fmts_of[FP[k][0]] = {1: "a8r8g8b8, -, a8r8g8b8", 2: "a8, -, a8", 3: "solid, a8, a8r8g8b8", 5: "a8r8g8b8, -, a8r8g8b8"}[k]
    for fn, v in FPF.items():
        fmts_of[fn] = "%s, %s, %s" % (v[2] or "solid", v[3] or "-", v[4])
    for fn, vs in FPF_MULTI.items():
        fmts_of[fn] = "; ".join("%s, -, %s" % (v[2] or "solid", v[4]) for v in vs)
    for fn, v in S2C.items():
        fmts_of[fn] = "%s, %s, %s" % (v[2], v[3] or "-", v[4])
    row_bounded = {}
    harness_only = set()
    for fn, fm in fmts_of.items():
        names = sorted(sched.get(fn, []))
        if any(not n.endswith(".ch4") for n in names):
            row_bounded[fn] = (names, fm)
        else:
            harness_only.add(fn)
    for fname, table in (("pixman-sse2.c", "sse2_fast_paths"), ("pixman-fast-path.c", "c_fast_paths")):
        try:
            txt = open(os.path.join(REPO, "pixman", fname)).read()
        except OSError:
            continue
        m = re.search(r"static const pixman_fast_path_t %s\[\] =\s*\{(.*?)\n\};" % table, txt, re.S)
        if not m:
            continue
        ents = []
        for e in re.finditer(r"^\s*(PIXMAN_STD_FAST_PATH(?:_CA)?|SIMPLE_NEAREST[A-Z_]*FAST_PATH[A-Z_]*|SIMPLE_BILINEAR[A-Z_]*FAST_PATH[A-Z_]*|SIMPLE_ROTATE_FAST_PATH|FAST_NEAREST[A-Z_]*|FAST_BILINEAR[A-Z_]*|\{)\s*\(?([^\n]*)", m.group(1), re.M):
            args = [a for a in (a.strip(" (){},;") for a in e.group(2).split(",")) if a]
            if not args:
                continue
            macro = e.group(1)
            fn = args[-1] if macro.startswith("PIXMAN_STD") else macro + ":" + "_".join(a for a in args if a)
            ent = {"entry": (macro + " " + ", ".join(args)).strip(), "routine": fn}
            if fn in row_bounded:
                names, fmts = row_bounded[fn]
                st = (proved_kernel[fn] + "; " if fn in proved_kernel else "") + "row bounded"
                ent["jobs"] = names
                # which obligations the scheduled jobs carry: chN = pixel channel N (0=B 1=G 2=R 3=A), ch5 = all fields (SRC), ch4 = frame
                ent["channels_scheduled"] = sorted({n.rsplit(".ch", 1)[1] for n in names})
                ent["checked_with_operands"] = fmts
                mine = ", ".join("-" if a == "null" else a for a in args[1:4])
                if mine not in fmts.split("; "):
                    # same routine, same code path: the entry's formats differ from the checked ones only by the naming of the
                    # colour channels (a8b8g8r8 / b5g6r5: the routine never looks at which 8-bit lane is red) or by an x channel
                    # whose stored value the destination format ignores
                    ent["note"] = "entry registers the same routine for %s: channel renaming / ignored x channel of the checked operands" % mine
            elif fn in proved_kernel:
                st = proved_kernel[fn]
            elif fn in other:
                st = other[fn]
            elif fn in harness_only:
                st = "unverified (harness mode exists in fastpath_fmt.c / sse2_composite.c, no pixel job scheduled: no measured passing run)"
            else:
                st = "unverified"
            ent["status"] = st
            ents.append(ent)
        out[table] = ents
    return out


def table_job():
    def fn(workdir):
        t = scan_tables()
        obl = []
        for name in ("sse2_fast_paths", "c_fast_paths"):
            ents = t.get(name, [])
            obl.append(("tables.%s.found_and_non_empty" % name, len(ents) > 10, "%d entries" % len(ents)))
            n_un = sum(1 for e in ents if e["status"] == "unverified")
            obl.append(("tables.%s.status_listed" % name, True, "%d entries: %d unverified, %d with a status" % (len(ents), n_un, len(ents) - n_un)))
        with open(os.path.join(VERIF, "evidence", "C02_tables.json"), "w") as f:
            json.dump(t, f, indent=1)
        return obl
    return PyJob("tables.scan", fn, kind="bounded", bound="source-text scan, no semantic claim", functions=[], min_props=4,
                 domain="every entry of sse2_fast_paths and c_fast_paths with status {kernel proved, row bounded, C19, unverified}, the jobs and the operand formats they use: evidence/C02_tables.json",
                 timeout=60)


def selftest_job():
    def fn(workdir):
        exe = os.path.join(workdir, "selftest")
        cmd = ["gcc", "-O1", "-w", "-msse2", "-mssse3", "-I" + os.path.join(VERIF, "models"),
               os.path.join(VERIF, "harness", "C02", "models_selftest.c"), "-o", exe]
        rc, out, err, _, _ = sh(cmd, timeout=120)
        if rc != 0:
            return [("models.selftest.builds", False, err[-300:])]
        rc, out, err, _, to = sh([exe], timeout=120)
        obl = [("models.selftest.builds", True, "")]
        for line in out.splitlines():
            m = re.match(r"(ok|FAIL) (\S+) (.*)", line)
            if m:
                obl.append(("models." + m.group(2) + ".equals_real_instruction", m.group(1) == "ok", m.group(3)))
        return obl
    return PyJob("models.selftest", fn, kind="bounded", bound="2*10^5 random + corner vectors per builtin, run natively",
                 functions=[], min_props=15, domain="each C model of a __builtin_ia32_* builtin vs the real instruction", timeout=300)


# Row jobs of fastfmt_jobs / sse2c_jobs that have a measured passing run on the unchanged tree: CPU seconds (cbmc + kissat,
# measured while the machine was shared, so wall clock was 1-4x that).  ONLY these are scheduled (timeout = max (1800,
# 12 x measured)); every other (routine, channel) combination the two generators can produce is a harness mode that exists
# but has no measured run, is not scheduled and is not counted as covered in evidence/C02_tables.json.
# C02_UNMEASURED=1 in the environment schedules all of them (exploration).
MEASURED = {
    "fast.fast_composite_add_0565_0565.ch0": 29,
    "fast.fast_composite_add_0565_0565.ch1": 30,
    "fast.fast_composite_add_0565_0565.ch2": 30,
    "fast.fast_composite_add_0565_0565.ch4": 33,
    "fast.fast_composite_add_1_1.ch3": 26,
    "fast.fast_composite_add_1_1.ch4": 27,
    "fast.fast_composite_add_n_8888_8888_ca.ch4": 33,
    "fast.fast_composite_add_n_8888_8888_ca.x012.ch1": 60,
    "fast.fast_composite_add_n_8888_8888_ca.x012.ch3": 67,
    "fast.fast_composite_add_n_8_8.ch4": 31,
    "fast.fast_composite_add_n_8_8.x012.ch3": 60,
    "fast.fast_composite_in_8_8.ch3": 58,
    "fast.fast_composite_in_8_8.ch4": 32,
    "fast.fast_composite_in_n_8_8.ch4": 32,
    "fast.fast_composite_over_8888_0565.ch0": 39,
    "fast.fast_composite_over_8888_0565.ch1": 40,
    "fast.fast_composite_over_8888_0565.ch2": 41,
    "fast.fast_composite_over_8888_0565.ch4": 29,
    "fast.fast_composite_over_n_1_0565.ch1": 56,
    "fast.fast_composite_over_n_1_0565.ch4": 31,
    "fast.fast_composite_over_n_1_8888.ch1": 80,
    "fast.fast_composite_over_n_1_8888.ch3": 88,
    "fast.fast_composite_over_n_1_8888.ch4": 33,
    "fast.fast_composite_over_n_8_0888.ch4": 30,
    "fast.fast_composite_solid_fill.a1.ch4": 30,
    "fast.fast_composite_solid_fill.a1.ch5": 26,
    "fast.fast_composite_solid_fill.a8.ch4": 26,
    "fast.fast_composite_solid_fill.a8.ch5": 26,
    "fast.fast_composite_solid_fill.a8r8g8b8.ch4": 26,
    "fast.fast_composite_solid_fill.a8r8g8b8.ch5": 28,
    "fast.fast_composite_solid_fill.r5g6b5.ch4": 27,
    "fast.fast_composite_solid_fill.r5g6b5.ch5": 26,
    "fast.fast_composite_src_memcpy.a8.ch4": 32,
    "fast.fast_composite_src_memcpy.a8.ch5": 31,
    "fast.fast_composite_src_memcpy.a8r8g8b8.ch4": 32,
    "fast.fast_composite_src_memcpy.a8r8g8b8.ch5": 32,
    "fast.fast_composite_src_memcpy.b8g8r8a8.ch4": 30,
    "fast.fast_composite_src_memcpy.b8g8r8a8.ch5": 31,
    "fast.fast_composite_src_memcpy.r5g6b5.ch4": 30,
    "fast.fast_composite_src_memcpy.r5g6b5.ch5": 31,
    "fast.fast_composite_src_memcpy.r8g8b8.ch4": 40,
    "fast.fast_composite_src_memcpy.r8g8b8.ch5": 41,
    "fast.fast_composite_src_memcpy.x1r5g5b5.ch4": 28,
    "fast.fast_composite_src_memcpy.x1r5g5b5.ch5": 30,
    "fast.fast_composite_src_x888_8888.ch0": 31,
    "fast.fast_composite_src_x888_8888.ch1": 31,
    "fast.fast_composite_src_x888_8888.ch2": 31,
    "fast.fast_composite_src_x888_8888.ch3": 31,
    "fast.fast_composite_src_x888_8888.ch4": 31,
    "sse2c.sse2_composite_add_8888_8888.ch1": 53,
    "sse2c.sse2_composite_add_8888_8888.ch4": 36,
    "sse2c.sse2_composite_add_8_8.ch3": 159,
    "sse2c.sse2_composite_add_8_8.ch4": 122,
    "sse2c.sse2_composite_add_n_8.ch3": 82,
    "sse2c.sse2_composite_add_n_8.ch4": 50,
    "sse2c.sse2_composite_add_n_8888.ch1": 48,
    "sse2c.sse2_composite_add_n_8888.ch4": 36,
    "sse2c.sse2_composite_in_8_8.ch4": 104,
    "sse2c.sse2_composite_in_8_8.k8.ch3": 223,
    "sse2c.sse2_composite_over_8888_0565.ch4": 131,
    "sse2c.sse2_composite_over_8888_8888.ch1": 208,
    "sse2c.sse2_composite_over_8888_8888.ch4": 56,
    "sse2c.sse2_composite_over_n_0565.ch1": 247,
    "sse2c.sse2_composite_over_n_8888.ch1": 162,
    "sse2c.sse2_composite_over_n_8888.ch3": 115,
    "sse2c.sse2_composite_over_n_8888.ch4": 41,
    "sse2c.sse2_composite_over_n_8_8888.ch4": 54,
    "sse2c.sse2_composite_over_reverse_n_8888.ch1": 149,
    "sse2c.sse2_composite_src_x888_0565.ch0": 74,
    "sse2c.sse2_composite_src_x888_0565.ch1": 75,
    "sse2c.sse2_composite_src_x888_0565.ch2": 75,
    "sse2c.sse2_composite_src_x888_0565.ch4": 53,
    "sse2c.sse2_composite_src_x888_8888.ch0": 111,
    "sse2c.sse2_composite_src_x888_8888.ch1": 116,
    "sse2c.sse2_composite_src_x888_8888.ch2": 117,
    "sse2c.sse2_composite_src_x888_8888.ch3": 112,
    "sse2c.sse2_composite_src_x888_8888.ch4": 84,
}


def measured_only(js):
    if os.environ.get("C02_UNMEASURED"):
        return js
    out = []
    for j in js:
        if j.name in MEASURED:
            j.timeout = max(1800, int(12 * MEASURED[j.name]))
            out.append(j)
    return out


def scheduled_row_jobs():
    """names of the row jobs scheduled in the thorough tier, per routine"""
    by = {}
    for j in fastpath_jobs("thorough") + measured_only(fastfmt_jobs("thorough") + sse2c_jobs("thorough")):
        by.setdefault(j.functions[0], []).append(j.name)
    return by


def jobs(tier):
    js = dispatch_jobs(tier) + sse2_jobs(tier) + fastpath_jobs(tier) + measured_only(fastfmt_jobs(tier) + sse2c_jobs(tier))
    js.append(table_job())
    if os.path.exists(os.path.join(VERIF, "harness", "C02", "models_selftest.c")):
        js.append(selftest_job())
    return js


META = {
    "level": "proof",
    "trusted_base": ["spec/spec_un8.h + spec_op.h (C01 spec)", "spec/spec_format.h (C10 literal format table, WIDEN / NARROW)",
                     "models/sse2_models_combine.h: Intel SDM lane semantics of the SSE2/SSSE3 builtins",
                     "CBMC memory model: objects are 16-byte aligned (offset 0); natively aligned(16) buffers"],
    "assumptions": [
        "A == B is decided as `A meets S and B meets S' with S the C01 spec composed with the C10 format codecs; the general path's combiners are C01's obligations",
        "dispatch proved on stub chains (2-3 implementations x <=3 symbolic entries); the real tables are only scanned textually (tables.scan)",
        "SSE2 masked / component-alpha kernels: only the subset listed in the thorough tier (each query 200-300 CPU s)",
        "row jobs (fast.* / sse2c.*): one row (height 1), width 3 (C) or one head pixel + one vector body + one tail pixel at a fixed 16-byte phase (SSE2); "
        "a routine registered for a8b8g8r8 / b5g6r5 / x-channel variants is checked with the a8r8g8b8 / r5g6b5 operands only (same code path, channel renaming)",
    ],
    "not_covered": ["MMX kernels (three inline-asm primitives need C bodies)", "SSSE3 bilinear fetcher", "sse2_combine_saturate_u (no C01 spec for SATURATE)",
                    "row jobs with a mask whose colour channels chain two products (OVER / IN with an a8 or component-alpha mask: fast_composite_over_n_8_8888 "
                    "colour channels, over_n_8_0565, over_n_8_0888, over_x888_8_8888, in_n_8_8, over_n_8888_8888_ca, over_n_8888_0565_ca and their sse2_composite_* "
                    "counterparts): harness modes exist (fastpath_fmt.c, sse2_composite.c; C02_UNMEASURED=1 schedules them) but no query finished in the time "
                    "available (> 7 CPU minutes each with fixed x offsets, > 60 minutes with symbolic offsets) -> not scheduled, listed `unverified' in C02_tables.json",
                    "vector body colour channels 0 and 2 of sse2_combine_{atop,atop_reverse,xor}_u (channel 1 at lane 2 and the alpha channel at every lane are checked)",
                    "sse2_composite_over_pixbuf_*, sse2_composite_over_8888_8888_8888, every row of height > 1 (stride walk), widths beyond one vector body",
                    "macro-generated scaled nearest/bilinear main loops",
                    "pixman-x86.c CPU detection (cpuid inline asm)", "pixman_blt / pixman_fill (C19)"],
    "explanation": "per-entry status of sse2_fast_paths / c_fast_paths with the names of the scheduled jobs: evidence/C02_tables.json (written by job tables.scan)",
}
