"""C02 — every implementation (general, C fast paths, SSE2/SSSE3/MMX) is bit-identical.

"A == B" is decided as "A meets S and B meets S", S = the C01 per-channel spec (spec/spec_un8.h,
spec_op.h).  The general path's combiners are C01's subject; here:
  (1) dispatch is a function of the request (first match in chain order, cache is a sound memo),
      delegation down the chain, PIXMAN_DISABLE parsing, wholeops;
  (2) the SSE2 combiners (pixman-sse2.c) under trusted C models of the __builtin_ia32_* builtins;
  (3) C fast paths of pixman-fast-path.c on small hand-built images (fastpath.c: a8r8g8b8 / a8; fastpath_fmt.c: any
      direct-colour format through the literal WIDEN / NARROW of spec_format.h);
  (4) whole-row sse2_composite_* routines (sse2_composite.c): head pixel + one vector body + tail pixel at a fixed phase.
  (5) extension `fst': masked routines with the ghost pixel fixed per query (one query per pixel of the row; with a symbolic
      ghost pixel the colour channels never finished), component-alpha / a8r8g8b8-mask / pixbuf SSE2 rows, the SSE2 scanline
      fetchers (fst_sse2_fetch.c), the rotation blitters (fst_rotate.c), fast_composite_tiled_repeat (fst_tiled.c), the per-pixel
      operator of the nearest-neighbour scanline helpers (fst_nearest.c).  fst_rowd.c (route D, unbounded row contracts on
      the C fast paths) is kept but NOT scheduled: see META not_covered.
Row jobs of (3b)/(4)/(5) are scheduled only if they have a measured passing run (MEASURED).
The evidence carries the list of every fast-path table entry of sse2 / fast with its status and job names.
"""
import os, re, json
from vdriver import Job, PyJob, REPO, VERIF, sh, include_flags, ext_jobs, ext_meta

PC = ["--pointer-check", "--bounds-check"]
RL = ["harness/C02/replay_link.c"]

# (pixman op, spec code)
SPOP = {"CLEAR": 0, "SRC": 1, "DST": 2, "OVER": 3, "OVER_REVERSE": 4, "IN": 5, "IN_REVERSE": 6, "OUT": 7,
        "OUT_REVERSE": 8, "ATOP": 9, "ATOP_REVERSE": 10, "XOR": 11, "ADD": 12}
SSE2_U = ["OVER", "OVER_REVERSE", "IN", "IN_REVERSE", "OUT", "OUT_REVERSE", "ATOP", "ATOP_REVERSE", "XOR", "ADD"]
SSE2_CA = ["SRC", "OVER", "OVER_REVERSE", "IN", "IN_REVERSE", "OUT", "OUT_REVERSE", "ATOP", "ATOP_REVERSE", "XOR", "ADD"]
MODEL_TRUST = ["SSE2 intrinsics: models/sse2_models_combine.h (Intel SDM lane semantics of 21 __builtin_ia32_* builtins) is trusted; "
               "native replay and models.selftest run the real instructions"]


def sse2_fn(op, mode):
    return "sse2_combine_%s_%s" % (op.lower(), "ca" if mode == 2 else "u")


def sse2_job(kind_name, op, mode, ch, w, doff, soff=0, moff=0, k=None, timeout=900, kind="proof", bound=""):
    d = {"VC_PIXOP": "PIXMAN_OP_" + op, "VC_OP": SPOP[op], "VC_MODE": mode, "VC_CH": ch, "VC_W": w, "VC_DOFF": doff,
         "VC_SOFF": soff, "VC_MOFF": moff}
    if k is not None:
        d["VC_K"] = k
    name = "sse2.%s.%s.m%d.ch%d" % (kind_name, sse2_fn(op, mode), mode, ch)
    dom = {"head": "width 1, destination misaligned (scalar head loop), every (s,m,d)",
           "tail": "width 1, destination aligned (scalar tail loop), every (s,m,d)",
           "body4": "width 4, destination 16-byte aligned: exactly one pass through the 4-pixel vector body, every 3x128 bits of (s,m,d), symbolic lane"}.get(
               kind_name, "width %d, destination phase %d, source phase %d, mask phase %d, ghost pixel %s" % (w, doff, soff, moff, k))
    return Job(name, "C02/sse2_combine.c", defines=d, kind=kind, bound=bound, unwind=2 if w <= 4 else 4,
               cbmc_flags=["--unwindset", "harness.0:%d,harness.1:%d,harness.2:%d" % (w + 12, w + 12, w + 12)] + (PC if w > 4 or ch == 4 else []),
               functions=[sse2_fn(op, mode), "_pixman_implementation_create_sse2"], extra_sources=RL,
               domain=dom + (", channel %d" % ch if ch < 4 else ", frame: guard words / source / mask unchanged"),
               timeout=timeout, min_props=2, assumptions=MODEL_TRUST)


def sse2_jobs(tier):
    js = []
    quick = tier == "quick"
    # ---- per-pixel kernels (head / tail scalar loops) and the 4-pixel vector body, no mask
    for op in SSE2_U:
        for ch in (0, 1, 2, 3):
            if quick and (ch in (0, 2) or op not in ("OVER", "IN", "ADD", "OUT_REVERSE", "ATOP", "XOR") or (ch == 1 and op in ("ATOP", "XOR"))):
                continue  # atop/xor colour channels: 270-330 s each
            js.append(sse2_job("head", op, 0, ch, 1, 1, k=0, timeout=900))
            if not quick:
                js.append(sse2_job("tail", op, 0, ch, 1, 0, k=0, timeout=900))
            if quick and op not in ("OVER", "ADD", "IN"):
                continue
            if op in ("ATOP", "ATOP_REVERSE", "XOR") and ch < 3:
                # colour channels of the two-product operators with a symbolic lane: > 1200 s each (undecided in a full thorough
                # run).  Kept: channel 1 at the fixed lane 2 (bounded); channels 0 and 2 of the vector body of these three
                # combiners are not scheduled (their head / tail pixel kernels are, every channel)
                if ch == 1:
                    js.append(sse2_job("body4.k2", op, 0, 1, 4, 0, k=2, timeout=3600, kind="bounded",
                                       bound="4-pixel vector body, lane 2 only (every 3x128 bits of s, m, d)"))
                continue
            js.append(sse2_job("body4", op, 0, ch, 4, 0, timeout=1200))
        if not quick or op == "OVER":
            js.append(sse2_job("body4", op, 0, 4, 4, 0, timeout=900))
    if not quick:
        # masked / component-alpha kernels: 200-300 CPU seconds per query (three 16-bit lane multipliers whose
        # operand ranges the SAT solver has to discover); a chosen subset, thorough tier only
        for op, mode in (("OVER", 1), ("OVER", 2), ("ADD", 2)):
            for ch in (1, 3):
                js.append(sse2_job("head", op, mode, ch, 1, 1, k=0, timeout=3600))
        js.append(sse2_job("body4", "OVER", 1, 3, 4, 0, k=2, timeout=3600))
    # ---- row structure of sse2_combine_over_u: head + body + tail, fixed case per query (bounded)
    cases = [(9, 3, 1, 0)] if quick else [(9, 3, 1, 0), (8, 1, 0, 5), (9, 2, 3, 8), (8, 0, 2, 3)]
    for w, doff, soff, k in cases:
        j = sse2_job("row.w%d.d%d.s%d.k%d" % (w, doff, soff, k), "OVER", 0, 1, w, doff, soff=soff, k=k, timeout=2400,
                     kind="bounded", bound="width %d, destination phase %d, source phase %d, ghost pixel %d fixed; pixels symbolic" % (w, doff, soff, k))
        js.append(j)
    if not quick:
        j = sse2_job("row.w9.d3.s1.frame", "OVER", 0, 4, 9, 3, soff=1, k=0, timeout=2400, kind="bounded",
                     bound="width 9, destination phase 3, source phase 1; pixels symbolic")
        js.append(j)
    return js


def dispatch_jobs(tier):
    js = []
    quick = tier == "quick"
    cfgs = [(3, 3, c) for c in ((-1, 0, 5) if quick else range(-1, 8))] + ([] if quick else [(2, 3, c) for c in range(-1, 8)])
    for ni, t, case in cfgs:
        js.append(Job("lookup.first_match.ni%d.t%d.%s" % (ni, t, "miss" if case < 0 else "hit%d" % case), "C02/lookup.c",
                      defines={"VC_NI": ni, "VC_T": t, "VC_CASE": case}, unwind=10,
                      cbmc_flags=PC, kind="bounded", extra_sources=RL,
                      bound="%d implementations x %d symbolic table entries (+ optional catch-all + terminator)" % (ni, t),
                      functions=["_pixman_implementation_lookup_composite"],
                      domain="every request (op, 3 formats, 3 flag words in 2^32 each), every table content, every content of the 8 thread-local cache slots satisfying cache_ok; case: "
                             + ("no slot holds this request" if case < 0 else "first slot holding exactly this request is %d" % case) + " (quick tier runs 3 of the 9 cases)",
                      timeout=3600, min_props=7))
    n = 6
    js.append(Job("delegate.combiner", "C02/delegate.c", defines={"VC_COMBINER": None, "VC_CHAIN": n}, unwind=n + 2, cbmc_flags=PC,
                  kind="bounded", bound="fallback chain length <= %d (the longest chain built on x86 has 6)" % n, extra_sources=RL,
                  functions=["_pixman_implementation_lookup_combiner"],
                  domain="every chain length 0..%d, every subset of (implementation, slot) having a routine, every operator, narrow/component_alpha in {0,1}" % n,
                  assumptions=["lookup_combiner: component_alpha and narrow are 0 or 1 (all callers pass boolean expressions)"],
                  timeout=900, min_props=5))
    js.append(Job("delegate.iter_init", "C02/delegate.c", defines={"VC_ITER": None, "VC_CHAIN": 4}, unwind=8, cbmc_flags=PC,
                  kind="bounded", bound="fallback chain length <= 4, <= 2 entries per iterator table", extra_sources=RL,
                  functions=["_pixman_implementation_iter_init"],
                  domain="every chain length, every subset of implementations with a table, every table content, every format/flags/geometry, NULL and non-NULL image",
                  timeout=900, min_props=4))
    for which, d in (("fill", {}), ("blt", {"VC_BLT": None})):
        dd = dict(d)
        dd["VC_CHAIN"] = n
        js.append(Job("delegate.%s" % which, "C19/delegate.c", defines=dd, unwind=n + 2, cbmc_flags=PC, kind="bounded",
                      bound="fallback chain length <= %d" % n, functions=["_pixman_implementation_%s" % which],
                      domain="harness shared with C19: every chain length, subset, return pattern, argument value", timeout=900, min_props=6))
    names = ["fast", "sse2"] if quick else ["fast", "mmx", "sse2", "ssse3", "wholeops"]
    envmax = 8 if quick else 12
    for nm in names:
        js.append(Job("disabled.%s" % nm, "C02/disabled.c", defines={"VC_DISABLED": None, "VC_NAME": '"%s"' % nm, "VC_ENVMAX": envmax},
                      unwind=envmax + 3, cbmc_flags=PC, kind="bounded", bound="PIXMAN_DISABLE of at most %d characters" % envmax,
                      functions=["_pixman_disabled"], extra_sources=RL,
                      domain="every byte string of length <= %d (and the unset variable) vs `name is a space-separated token'" % envmax,
                      timeout=3600, min_props=3))
    envs = [None, "", "fast", "wholeops", "fast wholeops", "wholeops sse2 fast", "sse2", "wholeopsx fastx"]
    for ei, e in enumerate(envs):
        for narch in ((3,) if quick else (0, 1, 2, 3)):
            d = {"VC_CHOOSE": None, "VC_ENVMAX": 20, "VC_NARCH": narch}
            if e is None:
                d["VC_ENVUNSET"] = None
            else:
                d["VC_ENVSTR"] = '"%s"' % e
            js.append(Job("choose.env%d.arch%d" % (ei, narch), "C02/disabled.c", defines=d, unwind=22, cbmc_flags=PC, kind="bounded",
                          bound="PIXMAN_DISABLE = %s (one literal per query; token semantics for all strings: disabled.* jobs); %d CPU-specific implementations" % (repr(e), narch),
                          functions=["_pixman_choose_implementation"], extra_sources=RL,
                          domain="chain order, toplevel, wholeops empties every table but the last, combiners/iterators/blt/fill untouched",
                          timeout=600, min_props=6))
    return js


FP = {1: ("fast_composite_over_8888_8888", 3, 0), 2: ("fast_composite_add_8_8", 12, 0), 3: ("fast_composite_over_n_8_8888", 3, 1),
      4: ("fast_composite_src_memcpy", 1, 0), 5: ("fast_composite_add_8888_8888", 12, 0)}


def fastpath_jobs(tier):
    js = []
    quick = tier == "quick"
    for fp, (fn, op, mode) in FP.items():
        if fp == 4:
            # fast_composite_src_memcpy: CBMC 6.11's memcpy model drops the last word of the 12-byte copy between the two
            # word arrays (pixel obligation fails in the verifier, native replay with ASan holds: a verifier artefact, not
            # a verdict) -> not scheduled, listed under not_covered
            continue
        chans = (3, 4) if fp == 2 else (0, 1, 2, 3, 4)
        for ch in chans:
            if quick and (fp in (3, 5) or ch in (0, 2) or (fp == 4 and ch == 3)):
                continue
            if fp == 3 and ch in (0, 1, 2):
                # colour channels of over_n_8_8888 (in() followed by over(): two chained products per channel): with three
                # symbolic x offsets > 3600 s each (undecided in a full thorough run); with fixed offsets (harness mode of
                # fastfmt_jobs, fast.fast_composite_over_n_8_8888.x012.ch<c>) not finished after 7 CPU minutes when stopped:
                # NOT scheduled.  Alpha channel and frame stay.
                continue
            w = 3
            offs = [None]
            if fp == 4:  # memcpy path: fixed x offsets per query (see harness comment)
                offs = [(0, 1)] if quick else [(0, 1), (2, 1), (1, 2)]
            for off in offs:
              d = {"VC_FP": fp, "VC_OP": op, "VC_MODE": mode, "VC_CH": ch, "VC_W": w}
              if off:
                  d["VC_SX"], d["VC_DX"] = off
              js.append(Job("fast.%s%s.ch%d" % (fn, ".sx%d.dx%d" % off if off else "", ch), "C02/fastpath.c", defines=d,
                          unwind=w + 6, cbmc_flags=PC, kind="bounded", bound="width %d, height 1%s" % (w, ", x offsets fixed" if off else ""), functions=[fn], extra_sources=RL,
                          domain="one row of %d pixels, x offsets of src/mask/dest symbolic in [0,2], ghost pixel symbolic, every pixel value; %s"
                                 % (w, "channel %d" % ch if ch < 4 else "frame"),
                          assumptions=(["fast_composite_over_n_8_8888: _pixman_image_get_solid replaced by a stub returning the symbolic colour"] if fp == 3 else []),
                          timeout=3600 if mode else 1800, min_props=2))
    return js


# ---- more C fast paths, any direct-colour format (harness/C02/fastpath_fmt.c): result field == NARROW (OP (WIDEN ...))
# routine: (spec op, mode, source format | None = solid, mask format, destination format, channels present in the destination,
#           x base of 1-bpp images, quick-tier channels)
FPF = {
    "fast_composite_src_x888_8888":       ("SRC", 0, "x8r8g8b8", None, "a8r8g8b8", (0, 1, 2, 3), 0, (3,)),
    "fast_composite_in_8_8":              ("IN", 0, "a8", None, "a8", (3,), 0, (3,)),
    "fast_composite_in_n_8_8":            ("IN", 1, None, "a8", "a8", (3,), 0, ()),
    "fast_composite_add_n_8_8":           ("ADD", 1, None, "a8", "a8", (3,), 0, ()),
    "fast_composite_over_8888_0565":      ("OVER", 0, "a8r8g8b8", None, "r5g6b5", (0, 1, 2), 0, (1,)),
    "fast_composite_over_n_8_0565":       ("OVER", 1, None, "a8", "r5g6b5", (0, 1, 2), 0, ()),
    "fast_composite_add_0565_0565":       ("ADD", 0, "r5g6b5", None, "r5g6b5", (0, 1, 2), 0, ()),
    "fast_composite_over_x888_8_8888":    ("OVER", 1, "x8r8g8b8", "a8", "a8r8g8b8", (0, 1, 2, 3), 0, ()),
    # colour channels only: alpha channel and frame with symbolic offsets are jobs of fastpath_jobs (VC_FP=3)
    "fast_composite_over_n_8_8888":       ("OVER", 1, None, "a8", "a8r8g8b8", (0, 1, 2), 0, ()),
    "fast_composite_over_n_8_0888":       ("OVER", 1, None, "a8", "r8g8b8", (0, 1, 2), 0, ()),
    "fast_composite_add_n_8888_8888_ca":  ("ADD", 2, None, "a8r8g8b8", "a8r8g8b8", (0, 1, 2, 3), 0, ()),
    "fast_composite_over_n_8888_8888_ca": ("OVER", 2, None, "a8r8g8b8", "a8r8g8b8", (0, 1, 2, 3), 0, ()),
    "fast_composite_over_n_8888_0565_ca": ("OVER", 2, None, "a8r8g8b8", "r5g6b5", (0, 1, 2), 0, ()),
    "fast_composite_add_1_1":             ("ADD", 0, "a1", None, "a1", (3,), 30, ()),
    "fast_composite_over_n_1_8888":       ("OVER", 1, None, "a1", "a8r8g8b8", (0, 1, 2, 3), 30, ()),
    "fast_composite_over_n_1_0565":       ("OVER", 1, None, "a1", "r5g6b5", (0, 1, 2), 30, ()),
}
# routines registered for several genuinely different destination / source layouts: one set of jobs per layout,
# job name fast.<routine>.<dest format>.ch<c>
FPF_MULTI = {
    "fast_composite_solid_fill": [("SRC", 0, None, None, f, ch, 30 if f == "a1" else 0, ()) for f, ch in
                                  (("a8r8g8b8", (5,)), ("r5g6b5", (5,)), ("a8", (5,)), ("a1", (5,)))],
    "fast_composite_src_memcpy": [("SRC", 0, f, None, f, ch, 0, ()) for f, ch in
                                  (("a8r8g8b8", (5,)), ("b8g8r8a8", (5,)), ("r5g6b5", (5,)), ("x1r5g5b5", (5,)), ("r8g8b8", (5,)), ("a8", (5,)))],
}
FPF_TIMEOUT = {}
# routines whose queries get FIXED x offsets (src, mask, dest): list of offset triples, one set of jobs each
FPF_FIXX = {}
FPF_FIXX_DEFAULT = [(0, 1, 2)]   # every masked routine (mode 1 / 2)


def fastfmt_jobs(tier):
    js = []
    quick = tier == "quick"
    w = 3
    todo = [(fn, "", v) for fn, v in FPF.items()] + [(fn, "." + v[4], v) for fn, vs in FPF_MULTI.items() for v in vs]
    for fn, tag, (op, mode, sfmt, mfmt, dfmt, chans, xbase, qch) in todo:
      for fix in (FPF_FIXX.get(fn) or (FPF_FIXX_DEFAULT if mode and not xbase else [None])):
        for ch, k in [(c, kk) for c in tuple(chans) + (4,) for kk in (None, 0, 1, 2)]:
            if quick and ch not in qch:
                continue
            if fn == "fast_composite_over_n_8_8888" and ch == 4:
                continue
            d = {"VC_FN": fn, "VC_OP": SPOP[op], "VC_MODE": mode, "VC_CH": ch, "VC_W": w, "VC_DFMT": dfmt,
                 "VC_SFMT": sfmt or "a8r8g8b8"}
            if sfmt is None:
                d["VC_SOLID"] = None
            if mfmt:
                d["VC_MFMT"] = mfmt
            if xbase:
                d["VC_XBASE"] = xbase
            xtag = ""
            if fix and ch != 4:
                d["VC_SX"], d["VC_MX"], d["VC_DX"] = fix
                xtag = ".x%d%d%d" % fix
                if k is not None and k != 1 and ch != (1 if 1 in chans else chans[0]):
                    continue     # every pixel position for one channel, the middle pixel for the others
                if k is not None:
                    # ghost pixel fixed as well: with a symbolic ghost pixel the colour channels of the masked OVER / IN routines
                    # (two chained products per channel) did not finish in an hour; one query per pixel of the row takes 30-110 s
                    d["VC_K"] = k
                    xtag += ".k%d" % k
            elif k is not None:
                continue
            stubs = ["%s: _pixman_image_get_solid replaced by a stub returning the symbolic colour" % fn] if sfmt is None else []
            if fn == "fast_composite_src_memcpy":
                d["VC_OWN_MEMCPY"] = None
                stubs.append("fast_composite_src_memcpy: memcpy is a byte loop written in the harness (CBMC 6.11's library model of memcpy gives a "
                             "false alarm for a 12-byte copy between word arrays at symbolic offsets); the native replay runs the real memcpy")
            if fn == "fast_composite_solid_fill":
                stubs.append("fast_composite_solid_fill: pixman_fill replaced by a per-pixel store of the filler's low bpp bits (C19 covers pixman_fill)")
            xdom = ("x offsets of src/mask/dest fixed at %d/%d/%d" % fix if xtag else
                    "x offsets of src/mask/dest symbolic (3 x 3 x 2 values%s)" % (", 1-bpp rows start at bit %d..%d: the span crosses a 32-bit word" % (xbase, xbase + 2) if xbase else ""))
            js.append(Job("fast.%s%s%s.ch%d" % (fn, tag, xtag, ch), "C02/fastpath_fmt.c", defines=d,
                          unwind=max(w + 6, 26 if dfmt == "r8g8b8" else 0, 66 if "a1" in (dfmt,) else 0, 4 * w + 2 if fn == "fast_composite_src_memcpy" else 0),
                          cbmc_flags=PC, kind="bounded", bound="width %d, height 1%s%s" % (w, ", x offsets fixed" if xtag else "", "" if k is None else ", ghost pixel %d" % k), functions=[fn], extra_sources=RL,
                          domain="%s %s, %s, %s: one row of %d pixels, %s, ghost pixel %s, every pixel value; %s"
                                 % (op, sfmt or "solid", mfmt or "-", dfmt, w, xdom, "symbolic" if k is None else "%d (one query per pixel)" % k,
                                    "field of channel %d == NARROW (C01 spec (WIDEN src, WIDEN mask, WIDEN dest))" % ch if ch < 4 else
                                    "frame" if ch == 4 else "all defined bits == NARROW_PIX (WIDEN_PIX (source)) (SRC: no arithmetic)"),
                          assumptions=stubs,
                          timeout=FPF_TIMEOUT.get((fn, ch), 3600 if mode else 1800), min_props=2))
    return js


# ---- whole-row SSE2 composite routines (harness/C02/sse2_composite.c)
# geometry per destination bpp: (width, dest x, src x, mask x, row pixels): head 1 pixel, one vector body, tail 1 pixel
G32 = (6, 3, 1, 2, 12)        # 4-pixel body
G32W = (18, 3, 1, 2, 24)      # 16-pixel body (src_x888_8888)
G16 = (10, 7, 1, 2, 24)       # 8-pixel body
G8 = (18, 15, 1, 2, 48)       # 16-pixel body
G8A = (30, 11, 1, 2, 48)      # add_8_8: 1 byte head, combiner on 7 words at word phase 3 (1 + 4 + 2), 1 byte tail; 29 bytes after the
                              # head: (w & 0xfffc) = 28 differs from (w & 0xfff8) = 24 (a mutant of the tail offset survived width 26)
# routine: (op, mode, source format | "solid", mask format | "solid" | None, destination format, channels, geometry, ghost pixels
#           (None = symbolic), quick-tier channels)
S2C = {
    "sse2_composite_over_n_8888":         ("OVER", 0, "solid", None, "a8r8g8b8", (0, 1, 2, 3), G32, None, (1,)),
    "sse2_composite_over_8888_8888":      ("OVER", 0, "a8r8g8b8", None, "a8r8g8b8", (0, 1, 2, 3), G32, None, ()),
    "sse2_composite_add_8888_8888":       ("ADD", 0, "a8r8g8b8", None, "a8r8g8b8", (0, 1, 2, 3), G32, None, ()),
    "sse2_composite_add_n_8888":          ("ADD", 0, "solid", None, "a8r8g8b8", (0, 1, 2, 3), G32, None, ()),
    "sse2_composite_add_8_8":             ("ADD", 0, "a8", None, "a8", (3,), G8A, None, ()),
    "sse2_composite_add_n_8":             ("ADD", 0, "solid", None, "a8", (3,), G8, None, ()),
    "sse2_composite_in_8_8":              ("IN", 0, "a8", None, "a8", (3,), G8, (0, 8, 17), ()),
    "sse2_composite_in_n_8":              ("IN", 0, "solid", None, "a8", (3,), G8, (0, 8, 17), ()),
    "sse2_composite_src_x888_8888":       ("SRC", 0, "x8r8g8b8", None, "a8r8g8b8", (0, 1, 2, 3), G32W, None, ()),
    "sse2_composite_src_x888_0565":       ("SRC", 0, "x8r8g8b8", None, "r5g6b5", (0, 1, 2), G16, None, (1,)),
    "sse2_composite_over_n_0565":         ("OVER", 0, "solid", None, "r5g6b5", (0, 1, 2), G16, None, ()),
    "sse2_composite_over_8888_0565":      ("OVER", 0, "a8r8g8b8", None, "r5g6b5", (0, 1, 2), G16, None, ()),
    "sse2_composite_over_reverse_n_8888": ("OVER_REVERSE", 0, "solid", None, "a8r8g8b8", (0, 1, 2, 3), G32, None, ()),
    "sse2_composite_over_n_8_8888":       ("OVER", 1, "solid", "a8", "a8r8g8b8", (1, 3), G32, (0, 2, 5), ()),
    "sse2_composite_add_n_8_8888":        ("ADD", 1, "solid", "a8", "a8r8g8b8", (1, 3), G32, (0, 2, 5), ()),
    "sse2_composite_src_n_8_8888":        ("SRC", 1, "solid", "a8", "a8r8g8b8", (1, 3), G32, (0, 2, 5), ()),
    "sse2_composite_add_n_8_8":           ("ADD", 1, "solid", "a8", "a8", (3,), G8, (0, 8, 17), ()),
    "sse2_composite_in_n_8_8":            ("IN", 1, "solid", "a8", "a8", (3,), G8, (0, 8, 17), ()),
    "sse2_composite_over_8888_8_8888":    ("OVER", 1, "a8r8g8b8", "a8", "a8r8g8b8", (1, 3), G32, (0, 2, 5), ()),
    "sse2_composite_over_x888_8_8888":    ("OVER", 1, "x8r8g8b8", "a8", "a8r8g8b8", (1, 3), G32, (0, 2, 5), ()),
    "sse2_composite_over_8888_n_8888":    ("OVER", 1, "a8r8g8b8", "solid", "a8r8g8b8", (1, 3), G32, (0, 2, 5), ()),
    "sse2_composite_over_x888_n_8888":    ("OVER", 1, "x8r8g8b8", "solid", "a8r8g8b8", (1, 3), G32, (0, 2, 5), ()),
    "sse2_composite_over_n_8_0565":       ("OVER", 1, "solid", "a8", "r5g6b5", (1,), G16, (0, 4, 9), ()),
    # component-alpha masks, a8r8g8b8 mask with a8r8g8b8 source, pixbuf requests (extension `fst')
    "sse2_composite_add_n_8888_8888_ca":  ("ADD", 2, "solid", "a8r8g8b8", "a8r8g8b8", (1, 3), G32, (0, 2, 5), ()),
    "sse2_composite_over_n_8888_8888_ca": ("OVER", 2, "solid", "a8r8g8b8", "a8r8g8b8", (1, 3), G32, (0, 2, 5), ()),
    "sse2_composite_over_n_8888_0565_ca": ("OVER", 2, "solid", "a8r8g8b8", "r5g6b5", (1,), G16, (0, 4, 9), ()),
    "sse2_composite_over_8888_8888_8888": ("OVER", 1, "a8r8g8b8", "a8r8g8b8", "a8r8g8b8", (1, 3), G32, (0, 2, 5), ()),
    "sse2_composite_over_pixbuf_8888":    ("OVER", 1, "x8b8g8r8", "pixbuf", "a8r8g8b8", (0, 1, 3), G32, (0, 2, 5), ()),
    "sse2_composite_over_pixbuf_0565":    ("OVER", 1, "x8b8g8r8", "pixbuf", "r5g6b5", (0, 1), G16, (0, 4, 9), ()),
}
S2C_TIMEOUT = {}
# sliced queries whose input arrays are assigned element by element (-DVC_SLICED: the sliced trace then keeps the inputs and a
# counterexample can be replayed natively) -- the ones with a measured passing run in that configuration; the other sliced
# queries keep the declared-only arrays they were measured with (a counterexample of theirs is reported without native replay;
# sse2c.sse2_composite_over_8888_n_8888.k2.ch1 needed 1179 s instead of 267 s with the assigned arrays)
S2C_SLICED_ASSIGNED = {"sse2c.sse2_composite_add_n_8888_8888_ca.k2.ch1",
                       "sse2c.sse2_composite_over_8888_8888_8888.k2.ch1",
                       "sse2c.sse2_composite_over_8888_8_8888.k0.ch1",
                       "sse2c.sse2_composite_over_8888_8_8888.k2.ch1",
                       "sse2c.sse2_composite_over_8888_8_8888.k2.ch3",
                       "sse2c.sse2_composite_over_8888_8_8888.k5.ch1",
                       "sse2c.sse2_composite_over_n_8888_8888_ca.k2.ch1",
                       "sse2c.sse2_composite_over_n_8_0565.k4.ch1",
                       "sse2c.sse2_composite_over_n_8_8888.k0.ch1",
                       "sse2c.sse2_composite_over_n_8_8888.k2.ch1",
                       "sse2c.sse2_composite_over_n_8_8888.k2.ch3",
                       "sse2c.sse2_composite_over_n_8_8888.k5.ch1",
                       "sse2c.sse2_composite_over_pixbuf_0565.k4.ch0",
                       "sse2c.sse2_composite_over_pixbuf_0565.k4.ch1",
                       "sse2c.sse2_composite_over_pixbuf_8888.k2.ch0",
                       "sse2c.sse2_composite_over_pixbuf_8888.k2.ch1",
                       "sse2c.sse2_composite_over_x888_8_8888.k0.ch1",
                       "sse2c.sse2_composite_over_x888_8_8888.k2.ch1",
                       "sse2c.sse2_composite_over_x888_n_8888.k2.ch1"}
S2C_UNSLICED = {"sse2c.sse2_composite_in_n_8_8.k8.ch3", "sse2c.sse2_composite_add_n_8_8.k0.ch3", "sse2c.sse2_composite_add_n_8_8.k17.ch3", "sse2c.sse2_composite_add_n_8_8.k8.ch3", "sse2c.sse2_composite_add_n_8_8888.k0.ch1", "sse2c.sse2_composite_add_n_8_8888.k0.ch3", "sse2c.sse2_composite_add_n_8_8888.k2.ch1", "sse2c.sse2_composite_add_n_8_8888.k2.ch3", "sse2c.sse2_composite_add_n_8_8888.k5.ch1", "sse2c.sse2_composite_add_n_8_8888.k5.ch3", "sse2c.sse2_composite_over_n_8_8888.k0.ch3", "sse2c.sse2_composite_src_n_8_8888.k0.ch1", "sse2c.sse2_composite_src_n_8_8888.k0.ch3", "sse2c.sse2_composite_src_n_8_8888.k2.ch1", "sse2c.sse2_composite_src_n_8_8888.k2.ch3", "sse2c.sse2_composite_src_n_8_8888.k5.ch1", "sse2c.sse2_composite_src_n_8_8888.k5.ch3"}


def sse2c_jobs(tier):
    js = []
    quick = tier == "quick"
    for fn, (op, mode, sfmt, mfmt, dfmt, chans, geo, ks, qch) in S2C.items():
        w, dx, sx, mx, row = geo
        for ch in tuple(chans) + (4,):
            if quick and ch not in qch:
                continue
            for k in ((None,) if (ks is None or ch == 4) else ks):
                d = {"VC_FN": fn, "VC_PIXOP": "PIXMAN_OP_" + op, "VC_OP": SPOP[op], "VC_MODE": mode, "VC_CH": ch, "VC_W": w, "VC_DX": dx,
                     "VC_SX": sx, "VC_MX": mx, "VC_ROW": row, "VC_DFMT": dfmt, "VC_SFMT": "a8r8g8b8" if sfmt == "solid" else sfmt}
                if sfmt == "solid":
                    d["VC_SOLID"] = None
                if mfmt == "solid":
                    d["VC_MSOLID"] = None
                    d["VC_MFMT"] = "a8r8g8b8"
                elif mfmt == "pixbuf":
                    d["VC_PIXBUF"] = None
                    d["VC_MFMT"] = "a8r8g8b8"
                elif mfmt:
                    d["VC_MFMT"] = mfmt
                if k is not None:
                    d["VC_K"] = k
                stubs = []
                if "solid" in (sfmt, mfmt):
                    stubs.append("%s: _pixman_image_get_solid replaced by a stub returning the symbolic colour" % fn)
                if fn in ("sse2_composite_add_n_8888", "sse2_composite_add_n_8", "sse2_composite_in_n_8"):
                    stubs.append("%s: pixman_fill (colour 0 / ~0 shortcut) replaced by a per-pixel store of the filler (C19 covers pixman_fill)" % fn)
                jn = "sse2c.%s%s.ch%d" % (fn, "" if k is None else ".k%d" % k, ch)
                # masked pixel queries: the formula is sliced to the cone of influence of the obligations (the other pixels of the
                # row drop out); without it the colour channels of the masked OVER / IN routines did not finish in 900 s.  Queries
                # measured before the flag was introduced keep their measured configuration.
                sl = ["--slice-formula"] if (mode and ch < 4 and jn not in S2C_UNSLICED) else []
                if sl and (jn in S2C_SLICED_ASSIGNED or os.environ.get("C02_SLICED_ASSIGNED")):
                    d["VC_SLICED"] = None     # input arrays assigned element by element: the sliced trace keeps the inputs (native replay)
                js.append(Job(jn, "C02/sse2_composite.c", defines=d,
                              unwind=row + 2, cbmc_flags=PC + sl, kind="bounded", object_bits=10,
                              bound="width %d, height 1, destination x %d (16-byte phase fixed: 1 head pixel, one vector body, 1 tail pixel), source x %d, mask x %d%s"
                                    % (w, dx, sx, mx, "" if k is None else ", ghost pixel %d" % k),
                              functions=[fn, "_pixman_implementation_create_sse2"], extra_sources=RL,
                              domain="%s %s, %s, %s: every pixel value, ghost pixel %s; %s"
                                     % (op, sfmt, mfmt or "-", dfmt, "symbolic" if k is None else "fixed",
                                        "field of channel %d == NARROW (C01 spec (WIDEN src, WIDEN mask, WIDEN dest))" % ch if ch < 4 else "frame"),
                              assumptions=MODEL_TRUST + stubs, timeout=S2C_TIMEOUT.get((fn, ch), 3600), min_props=2))
    return js


# ---- (3c) route D: unbounded row contracts on C fast paths with a plain `while (w--)` pixel loop (harness/C02/fst_rowd.c)
# routine: (op, mode, source format | None = solid, mask format | None, destination format, channels,
#           pointer locals walked by the row loop, other locals assigned in the loop (declared outside it),
#           number of (inner row loop, outer height loop) pairs in the function)
LE = "__CPROVER_loop_entry"
RD = {
    "fast_composite_over_x888_8_8888":    ("OVER", 1, "x8r8g8b8", "a8", "a8r8g8b8", (0, 1, 2, 3), ("dst", "src", "mask"), ("m", "s", "d"), 1),
    "fast_composite_in_n_8_8":            ("IN", 1, None, "a8", "a8", (3,), ("dst", "mask"), ("m", "t"), 2),
    "fast_composite_in_8_8":              ("IN", 0, "a8", None, "a8", (3,), ("dst", "src"), ("s", "t"), 1),
    "fast_composite_over_n_8_8888":       ("OVER", 1, None, "a8", "a8r8g8b8", (0, 1, 2, 3), ("dst", "mask"), ("m", "d"), 1),
    "fast_composite_add_n_8888_8888_ca":  ("ADD", 2, None, "a8r8g8b8", "a8r8g8b8", (0, 1, 2, 3), ("dst", "mask"), ("ma", "d", "s"), 1),
    "fast_composite_over_n_8888_8888_ca": ("OVER", 2, None, "a8r8g8b8", "a8r8g8b8", (0, 1, 2, 3), ("dst", "mask"), ("ma", "d", "s"), 1),
    "fast_composite_over_n_8_0565":       ("OVER", 1, None, "a8", "r5g6b5", (0, 1, 2), ("dst", "mask"), ("m", "d"), 1),
    "fast_composite_over_n_8888_0565_ca": ("OVER", 2, None, "a8r8g8b8", "r5g6b5", (0, 1, 2), ("dst", "mask"), ("ma", "d", "s"), 1),
    "fast_composite_over_8888_8888":      ("OVER", 0, "a8r8g8b8", None, "a8r8g8b8", (0, 1, 2, 3), ("dst", "src"), ("s", "a"), 1),
    "fast_composite_src_x888_8888":       ("SRC", 0, "x8r8g8b8", None, "a8r8g8b8", (0, 1, 2, 3), ("dst", "src"), (), 1),
    "fast_composite_over_8888_0565":      ("OVER", 0, "a8r8g8b8", None, "r5g6b5", (0, 1, 2), ("dst", "src"), ("s", "a", "d"), 1),
    "fast_composite_add_8_8":             ("ADD", 0, "a8", None, "a8", (3,), ("dst", "src"), ("s", "d", "t"), 1),
    "fast_composite_add_0565_0565":       ("ADD", 0, "r5g6b5", None, "r5g6b5", (0, 1, 2), ("dst", "src"), ("s", "d"), 1),
    "fast_composite_add_8888_8888":       ("ADD", 0, "a8r8g8b8", None, "a8r8g8b8", (0, 1, 2, 3), ("dst", "src"), ("s", "d"), 1),
    "fast_composite_add_n_8_8":           ("ADD", 1, None, "a8", "a8", (3,), ("dst", "mask"), (), 1),
}
RD_MEASURED = {}   # none: see META not_covered (route D on the nested composite loops did not close)


def rowd_tpl(fn, ch, outer=False):
    """loop-contract template of the inner `while (w--)` row loop / of the outer `while (height--)` loop (two-state invariant:
    height == 1 nothing done yet, height == 0 the row is done; the contract's precondition fixes height == 1)"""
    op, mode, sfmt, mfmt, dfmt, chans, ptrs, temps, npairs = RD[fn]
    sf, mf = sfmt or "a8r8g8b8", mfmt or "a8"
    lines = ["%s_line" % p for p in ptrs]
    if not outer:
        walk = " && ".join("%s == %s(%s) + (width - w)" % (p, LE, p) for p in ptrs)
        d0 = "%s(dst)" % LE
        if ch == 4:
            body = "((gf >= dest_x && gf < dest_x + width) || %s[gf - dest_x] == %s(%s[gf - dest_x]))" % (d0, LE, d0)
        else:
            s = "src" if sfmt is None else "%s(src)[gk]" % LE
            m = "%s(mask)[gk]" % LE if mode else "0u"
            body = ("(gk < width - w ==> FST_POST (%s, %s, %s, %s, %s, %s(%s[gk]), %s[gk])) && (gk >= width - w ==> %s[gk] == %s(%s[gk]))"
                    % (sf, s, mf, m, dfmt, LE, d0, d0, d0, LE, d0))
        inv = "0 <= w && w <= width && %s && %s" % (walk, body)
        assigns = ["w"] + list(ptrs) + list(temps) + ["__CPROVER_object_whole(dst)"]
        dec = "w"
        vs = ["w", "width", "dest_x", "gk=gk", "gf=gf"] + list(ptrs) + list(temps)
    else:
        same = " && ".join("%s == %s(%s)" % (p, LE, p) for p in lines)
        d0 = "%s(dst_line)" % LE
        if ch == 4:
            body = "((gf >= dest_x && gf < dest_x + width) || %s[gf - dest_x] == %s(%s[gf - dest_x]))" % (d0, LE, d0)
        else:
            s = "src" if sfmt is None else "%s(src_line)[gk]" % LE
            m = "%s(mask_line)[gk]" % LE if mode else "0u"
            body = ("(height == 1 ==> %s[gk] == %s(%s[gk])) && (height == 0 ==> FST_POST (%s, %s, %s, %s, %s, %s(%s[gk]), %s[gk]))"
                    % (d0, LE, d0, sf, s, mf, m, dfmt, LE, d0, d0))
        inv = "(height == 1 || height == 0) && (height == 1 ==> %s) && %s" % (same, body)
        assigns = ["height", "w"] + lines + list(ptrs) + list(temps) + ["__CPROVER_object_whole(dst_line)"]
        dec = "height"
        vs = ["height", "w", "width", "dest_x", "gk=gk", "gf=gf"] + lines + list(ptrs) + list(temps)
    if sfmt is None and "src" not in vs:
        vs.append("src")
    return {"assigns": ", ".join(assigns), "invariants": inv, "decreases": dec, "vars": vs, "headers": ["spec_fst.h"]}


def rowd_jobs(tier):
    js = []
    for fn, (op, mode, sfmt, mfmt, dfmt, chans, ptrs, temps, npairs) in RD.items():
        for ch in tuple(chans) + (4,):
            name = "rowD.%s.ch%d" % (fn, ch)
            d = {"VC_FN": fn, "VC_OP": SPOP[op], "VC_MODE": mode, "VC_CH": ch, "VC_DFMT": dfmt}
            if sfmt is None:
                d["VC_SOLID"] = None
            else:
                d["VC_SFMT"] = sfmt
            if mfmt:
                d["VC_MFMT"] = mfmt
            loops = []
            for _ in range(npairs):
                loops += [rowd_tpl(fn, ch), None]       # inner row loop: invariant; outer height loop: executed once (unwound)
            uw = ",".join("%s_wrapped_for_contract_checking.%d:2" % (fn, i) for i in range(npairs))
            js.append(Job(name, "C02/fst_rowd.c", route="D", enforce=fn, defines=d, loops={fn: loops},
                          cbmc_flags=["--unwindset", uw, "--unwinding-assertions"],
                          kind="proof", functions=[fn], replayable=False,
                          domain="%s %s, %s, %s: enforced function contract + row-loop invariant: ANY width <= 2^20, any x offsets <= 2^10, every pixel "
                                 "value, one row (height 1, y 0: the outer stride walk runs once); %s; assigns: destination pixels only"
                                 % (op, sfmt or "solid", mfmt or "-", dfmt,
                                    "ghost pixel, field of channel %d == NARROW (C01 spec (WIDEN src, WIDEN mask, WIDEN dest))" % ch if ch < 4 else
                                    "frame: ghost position outside [dest_x, dest_x + width) incl. the guard pixel unchanged"),
                          assumptions=(["%s: _pixman_image_get_solid replaced by a stub returning the nondeterministic colour" % fn] if sfmt is None else [])
                                      + ["rowD.*: one row (height == 1, y == 0), rowstride <= 2^22, width <= 2^20, x offsets <= 2^10"],
                          timeout=max(900, 5 * RD_MEASURED.get(name, 0)), min_props=10))
    return js


# ---- (3d) rotation blitters (harness/C02/fst_rotate.c): suffix -> (pixel type, pixels per 64-byte tile)
ROT = {"8888": ("uint32_t", 16), "565": ("uint16_t", 32), "8": ("uint8_t", 64)}


def rotate_jobs(tier):
    js = []
    for suffix, (pix, tile) in ROT.items():
        for angle in (90, 270):
            # destination x = tile - 1: one leading pixel up to the 64-byte boundary, one aligned tile, one trailing pixel
            for tag, dx, w, h in (("tiles", tile - 1, tile + 2, 1), ("small", 1, 3, 3)):
                if tag == "tiles" and suffix != "8888":
                    continue    # 34- / 66-pixel rows (565 / 8): the symbolic 64-byte phase makes symex unroll every tile loop to the row width; not measured
                for ch in (0, 4):
                    if tier == "quick" and not (suffix == "8888" and tag == "tiles" and ch == 0 and angle == 90):
                        continue
                    if ch == 4 and tag == "small":
                        continue
                    fn = "fast_composite_rotate_%d_%s" % (angle, suffix)
                    n = max((dx + w + 4) * (h + 1), (h + 6) * (w + 2)) + 4
                    js.append(Job("rotate.%s.%s.%s" % (fn, tag, "pixel" if ch == 0 else "frame"), "C02/fst_rotate.c",
                                  defines={"VC_ANGLE": angle, "VC_SUFFIX": suffix, "VC_PIX": pix, "VC_W": w, "VC_H": h, "VC_DX": dx, "VC_CH": ch},
                                  unwind=w + 3, cbmc_flags=PC + ["--unwindset", ",".join("harness.%d:%d" % (i, n) for i in range(8))],
                                  kind="bounded", extra_sources=RL,
                                  bound="%d x %d rectangle, destination x %d (64-byte phase fixed: %s)" % (w, h, dx,
                                        "1 leading pixel, one aligned tile of %d, 1 trailing pixel" % tile if tag == "tiles" else "inside one tile"),
                                  functions=[fn, "blt_rotated_%d_%s" % (angle, suffix), "blt_rotated_%d_trivial_%s" % (angle, suffix)],
                                  domain="SRC, %s pixels, rotation by %d degrees with any translation / src_x / src_y whose samples lie inside the source "
                                         "(FAST_PATH_SAMPLES_COVER_CLIP_NEAREST), every pixel value; %s" % (pix, angle,
                                         "ghost pixel (x, y): destination pixel == the source pixel selected by the nearest rule for the rotated pixel centre" if ch == 0
                                         else "frame: destination outside the rectangle and the source unchanged"),
                                  assumptions=["rotate.*: |src_x|, |src_y| <= 1000, |tx|, |ty| <= 2^28 (16.16), sample positions inside the source image (the flag the table entry requires)"],
                                  timeout=900, min_props=2))
    return js


# ---- (3e) per-pixel operator of the nearest-neighbour scanline helpers (harness/C02/fst_nearest.c)
# (scale_func_name of the FAST_NEAREST instance | None = the hand-unrolled 565 copy, op, source format, destination format, channels, width)
NEAR = [("8888_8888_cover", "SRC", "a8r8g8b8", "a8r8g8b8", (5,), 3), ("8888_8888_none", "SRC", "a8r8g8b8", "a8r8g8b8", (5,), 3),
        ("8888_8888_pad", "SRC", "a8r8g8b8", "a8r8g8b8", (5,), 3),
        ("x888_8888_cover", "SRC", "x8r8g8b8", "a8r8g8b8", (5,), 3), ("x888_8888_pad", "SRC", "x8r8g8b8", "a8r8g8b8", (5,), 3),
        ("8888_565_cover", "SRC", "a8r8g8b8", "r5g6b5", (5,), 3), ("8888_565_none", "SRC", "a8r8g8b8", "r5g6b5", (5,), 3),
        ("8888_565_pad", "SRC", "a8r8g8b8", "r5g6b5", (5,), 3),
        (None, "SRC", "r5g6b5", "r5g6b5", (5,), 7),
        ("8888_8888_cover", "OVER", "a8r8g8b8", "a8r8g8b8", (0, 1, 2, 3), 3), ("8888_8888_none", "OVER", "a8r8g8b8", "a8r8g8b8", (1,), 3),
        ("8888_8888_pad", "OVER", "a8r8g8b8", "a8r8g8b8", (1,), 3),
        ("8888_565_cover", "OVER", "a8r8g8b8", "r5g6b5", (0, 1, 2), 3), ("8888_565_none", "OVER", "a8r8g8b8", "r5g6b5", (1,), 3),
        ("8888_565_pad", "OVER", "a8r8g8b8", "r5g6b5", (1,), 3)]
NEAR_QUICK = {"nearest.scaled_nearest_scanline_8888_565_cover_OVER.k1.ch1", "nearest.scaled_nearest_scanline_565_565_SRC.ch5"}


def nearest_fn(name, op):
    return "scaled_nearest_scanline_565_565_SRC" if name is None else "scaled_nearest_scanline_%s_%s" % (name, op)


def nearest_jobs(tier):
    js = []
    for name, op, sfmt, dfmt, chans, w in NEAR:
        fn = nearest_fn(name, op)
        for ch in tuple(chans) + (4,):
            # OVER (arithmetic): one query per pixel of the scanline; SRC (copy / format conversion) and frame: ghost pixel symbolic
            for k in ((0, 1, 2) if (op == "OVER" and ch < 4 and (name or "").endswith("cover")) else (1,) if (op == "OVER" and ch < 4) else (None,)):
                jn = "nearest.%s%s.ch%d" % (fn, "" if k is None else ".k%d" % k, ch)
                if tier == "quick" and jn not in NEAR_QUICK:
                    continue
                d = {"VC_FN": fn, "VC_OP": SPOP[op], "VC_MODE": 0, "VC_CH": ch, "VC_W": w, "VC_SFMT": sfmt, "VC_DFMT": dfmt}
                if k is not None:
                    d["VC_K"] = k
                js.append(Job(jn, "C02/fst_nearest.c", defines=d, unwind=max(w + 3, 10), cbmc_flags=PC, kind="bounded", extra_sources=RL,
                              bound="scanline of %d pixels (main loop + tail), 8 source pixels%s" % (w, "" if k is None else ", ghost pixel %d" % k),
                              functions=[fn],
                              domain="%s %s -> %s: every vx >= 0 and unit_x >= 0 whose samples lie inside the 8 source pixels, every pixel value; %s"
                                     % (op, sfmt, dfmt, "field of channel %d of dst[k] == NARROW (C01 spec (WIDEN src[(vx + k unit_x) >> 16], -, WIDEN dst[k]))" % ch if ch < 4
                                        else "frame: guard pixels around the scanline and the source unchanged" if ch == 4 else
                                        "all defined bits of dst[k] == NARROW_PIX (WIDEN_PIX (src[(vx + k unit_x) >> 16]))"),
                              assumptions=["nearest.*: scanline helper only (the MAINLOOP geometry belongs to C08); unit_x >= 0, samples inside the source (what the COVER / PAD / NONE main loops guarantee for the span they pass)"],
                              timeout=900, min_props=2))
    return js


# ---- (3f) fast_composite_tiled_repeat (harness/C02/fst_tiled.c): (tag, pixel type, format, source w x h, composite w x h)
TILED = [("narrow32", "uint32_t", "PIXMAN_a8r8g8b8", 3, 2, 7, 3), ("narrow16", "uint16_t", "PIXMAN_r5g6b5", 3, 2, 7, 2),
         ("narrow8", "uint8_t", "PIXMAN_a8", 5, 2, 7, 2), ("wide32", "uint32_t", "PIXMAN_a8r8g8b8", 32, 1, 40, 2)]


def tiled_jobs(tier):
    js = []
    for tag, pix, fmt, sw, sh, w, h in TILED:
        for ch in (0, 4):
            if tier == "quick" and not (tag == "narrow32" and ch == 0):
                continue
            n = max((w + 6) * (h + 1), (sw + 4) * sh) + 4
            js.append(Job("tiled.fast_composite_tiled_repeat.%s.%s" % (tag, "pixel" if ch == 0 else "frame"), "C02/fst_tiled.c",
                          defines={"VC_PIX": pix, "VC_FMT": fmt, "VC_SW": sw, "VC_SH": sh, "VC_W": w, "VC_H": h, "VC_CH": ch},
                          unwind=4, cbmc_flags=PC + ["--unwindset", ",".join(["harness.%d:%d" % (i, n) for i in range(8)] +
                                ["fast_composite_tiled_repeat.%d:%d" % (i, b) for i, b in
                                 ((0, 32 // sw + 4), (2, sw + 2), (5, sw + 2), (8, sw + 2), (3, 32 // sw + 4), (6, 32 // sw + 4), (9, 32 // sw + 4),
                                  (10, 5), (11, h + 2))] + ["vc_blit.0:%d,vc_blit.1:%d" % (w + 2, h + 2)])],
                          kind="bounded", extra_sources=RL,
                          bound="source %d x %d (%s), composite %d x %d" % (sw, sh, "narrower than 32: extended into the stack buffer" if sw < 32 else "32 wide: used in place", w, h),
                          functions=["fast_composite_tiled_repeat"],
                          domain="SRC, %s, NORMAL repeat, any src_x / src_y in +-10^5, every pixel value, ghost pixel (x, y): destination pixel == source pixel "
                                 "((src_x + x) mod w, (src_y + y) mod h); every span handed to the inner routine lies inside the image handed to it" % fmt,
                          assumptions=["tiled.*: the routine returned by the inner lookup is replaced by a reference SRC blit that demands spans inside its source and the destination rectangle; "
                                       "_pixman_bits_image_init / _pixman_image_validate / _pixman_image_fini stubbed (temporary image header)"],
                          timeout=900, min_props=3))
    return js


# ---- (2c) SSE2 scanline fetchers (harness/C02/fst_sse2_fetch.c): format -> pixels per vector body
SFETCH = {"x8r8g8b8": 4, "r5g6b5": 8, "a8": 16}


def sse2_fetch_jobs(tier):
    js = []
    for fmt, body in SFETCH.items():
        for boff, w in ((3, body + 2), (0, body + 1), (2, 2 * body + 3)):
            for ch in (0, 4):
                if tier == "quick" and not (boff == 3 and ch == 0 and fmt == "r5g6b5"):
                    continue
                if ch == 4 and boff != 3:
                    continue
                fn = "sse2_fetch_" + fmt
                js.append(Job("sse2fetch.%s.b%d.w%d.%s" % (fn, boff, w, "pixel" if ch == 0 else "frame"), "C02/fst_sse2_fetch.c",
                              defines={"VC_FMT": fmt, "VC_W": w, "VC_BOFF": boff, "VC_CH": ch}, unwind=w + boff + 12, cbmc_flags=PC,
                              kind="bounded", extra_sources=RL, object_bits=10,
                              bound="width %d, buffer phase %d pixels (%d head pixel(s), %d vector bodies of %d, %d tail pixel(s)), source phase 1"
                                    % (w, boff, (4 - boff) % 4, (w - (4 - boff) % 4) // body, body, (w - (4 - boff) % 4) % body),
                              functions=[fn, "_pixman_implementation_create_sse2"],
                              domain="%s: every pixel value, ghost pixel symbolic, any stride; %s" % (fmt,
                                     "buffer[k] == WIDEN_PIX (raw pixel k); returns the buffer; bits advance by stride" if ch == 0 else "frame"),
                              assumptions=MODEL_TRUST, timeout=900, min_props=4))
    return js


# ---------------------------------------------------------------- fast-path table scan (evidence)
def table_entries(txt, table):
    """the entries of one fast-path table as (macro, [args]) in source order.  Macro DEFINITIONS inside the initializer
    (#define with continuation lines) are removed first; a brace entry may span several lines."""
    m = re.search(r"static const pixman_fast_path_t %s\[\] =\s*\{(.*?)\n\};" % table, txt, re.S)
    if not m:
        return []
    body = re.sub(r"^[ \t]*#[ \t]*define(?:\\\n|[^\n])*", "", m.group(1), flags=re.M)
    body = re.sub(r"/\*.*?\*/", "", body, flags=re.S)
    body = re.sub(r"^[ \t]*#[^\n]*", "", body, flags=re.M)
    out = []
    for e in re.finditer(r"([A-Z][A-Z0-9_]*FAST_PATH[A-Z0-9_]*)\s*\(([^()]*)\)|\{([^{}]*)\}", body):
        if e.group(1):
            out.append((e.group(1), [a.strip() for a in e.group(2).split(",") if a.strip()]))
        else:
            out.append(("{", [a.strip() for a in re.sub(r"\([^()]*\)", "", e.group(3)).split(",") if a.strip()]))
    return out


NEAREST_REPS = {"SIMPLE_NEAREST_FAST_PATH": ("cover", "none", "pad", "normal"), "SIMPLE_NEAREST_FAST_PATH_COVER": ("cover",),
                "SIMPLE_NEAREST_FAST_PATH_NONE": ("none",), "SIMPLE_NEAREST_FAST_PATH_PAD": ("pad",), "SIMPLE_NEAREST_FAST_PATH_NORMAL": ("normal",)}


def scan_tables():
    """every entry of sse2_fast_paths / c_fast_paths in the source text, with the status this property gives its routine.
    A status other than `unverified' is derived from the names of SCHEDULED thorough-tier jobs only."""
    out = {}
    proved_kernel = {"sse2_composite_over_8888_8888": "kernel proved (row = sse2_combine_over_u: kernel proved, row bounded)",
                     "sse2_composite_add_8888_8888": "kernel proved (row = sse2_combine_add_u kernels)"}
    other = {"sse2_composite_copy_area": "C19 (sse2_blt: blt.sse2.* jobs of property C19)"}
    sched = scheduled_row_jobs()
    fmts_of = {}
    for k in FP:
        if k != 4:
            fmts_of[FP[k][0]] = {1: "a8r8g8b8, -, a8r8g8b8", 2: "a8, -, a8", 3: "solid, a8, a8r8g8b8", 5: "a8r8g8b8, -, a8r8g8b8"}[k]
    for fn, v in FPF.items():
        fmts_of[fn] = "%s, %s, %s" % (v[2] or "solid", v[3] or "-", v[4])
    for fn, vs in FPF_MULTI.items():
        fmts_of[fn] = "; ".join("%s, -, %s" % (v[2] or "solid", v[4]) for v in vs)
    for fn, v in S2C.items():
        fmts_of[fn] = "%s, %s, %s" % (v[2], v[3] or "-", v[4])
    for fn, v in RD.items():
        fmts_of.setdefault(fn, "%s, %s, %s" % (v[2] or "solid", v[3] or "-", v[4]))
    row_bounded = {}
    harness_only = set()
    for fn, fm in fmts_of.items():
        names = sorted(sched.get(fn, []))
        if any(not n.endswith(".ch4") for n in names):
            row_bounded[fn] = (names, fm)
        else:
            harness_only.add(fn)
    for fname, table in (("pixman-sse2.c", "sse2_fast_paths"), ("pixman-fast-path.c", "c_fast_paths")):
        try:
            txt = open(os.path.join(REPO, "pixman", fname)).read()
        except OSError:
            continue
        ents = []
        for macro, args in table_entries(txt, table):
            if not args:
                continue
            jobs_of = []
            if macro.startswith("PIXMAN_STD"):
                fn = args[-1]
            elif macro == "{":
                fns = [a for a in args if re.fullmatch(r"(fast|sse2)_composite_\w+", a)]
                fn = fns[-1] if fns else "(terminator)" if args[0] == "PIXMAN_OP_NONE" else macro + ":" + "_".join(args)
            elif macro == "NEAREST_FAST_PATH":
                fn = "fast_composite_scaled_nearest"
            else:
                fn = macro + ":" + "_".join(args)
            ent = {"entry": (macro + " " + ", ".join(args)).strip(), "routine": fn}
            if fn == "(terminator)":
                ent["status"] = "table terminator (no routine)"
                ents.append(ent)
                continue
            if fn in row_bounded:
                names, fmts = row_bounded[fn]
                proofs = [n for n in names if n.startswith("rowD.") and not n.endswith(".ch4")]
                st = (proved_kernel[fn] + "; " if fn in proved_kernel else "") + ("row proved for any width (loop contract); " if proofs else "") + "row bounded"
                ent["jobs"] = names
                # which obligations the scheduled jobs carry: chN = pixel channel N (0=B 1=G 2=R 3=A), ch5 = all fields (SRC), ch4 = frame
                ent["channels_scheduled"] = sorted({n.rsplit(".ch", 1)[1] for n in names})
                ent["checked_with_operands"] = fmts
                mine = ", ".join("-" if a == "null" else a for a in args[1:4])
                if mine not in fmts.split("; "):
                    # same routine, same code path: the entry's formats differ from the checked ones only by the naming of the
                    # colour channels (a8b8g8r8 / b5g6r5: the routine never looks at which 8-bit lane is red) or by an x channel
                    # whose stored value the destination format ignores
                    ent["note"] = "entry registers the same routine for %s: channel renaming / ignored x channel of the checked operands" % mine
            elif fn in proved_kernel:
                st = proved_kernel[fn]
            elif fn in other:
                st = other[fn]
            elif fn in harness_only:
                st = "unverified (harness mode exists in fastpath_fmt.c / sse2_composite.c, no pixel job scheduled: no measured passing run)"
            elif macro in NEAREST_REPS and table == "c_fast_paths" and len(args) == 4:
                op, func = args[0], args[3]
                inst = ["scaled_nearest_scanline_%s_%s_%s" % (func, r, op) for r in NEAREST_REPS[macro]]
                if func == "565_565":     # cover / none / pad instances use the hand-unrolled scanline
                    inst = ["scaled_nearest_scanline_565_565_SRC" if not i.startswith("scaled_nearest_scanline_565_565_normal") else i for i in inst]
                have = [i for i in inst if any(not n.endswith(".ch4") for n in sched.get(i, []))]
                jobs_of = sorted({n for i in have for n in sched.get(i, [])})
                if have:
                    st = ("scanline kernel bounded for %d of %d repeat instances (%s); main loop (FAST_NEAREST_MAINLOOP: vx set-up, repeat, stride walk) not covered by C02"
                          % (len(set(have)), len(inst), ", ".join(sorted(set(have)))))
                    ent["jobs"] = jobs_of
                else:
                    st = "unverified"
            elif macro == "SIMPLE_ROTATE_FAST_PATH" and len(args) == 4:
                fns = ["fast_composite_rotate_%d_%s" % (a, args[3]) for a in (90, 270)]
                have = [f for f in fns if any(n.endswith(".pixel") for n in sched.get(f, []))]
                if len(have) == 2:
                    st = "rectangle bounded (both entries of the macro: rotate 90 and 270)"
                    ent["jobs"] = sorted({n for f in have for n in sched.get(f, [])})
                else:
                    st = "unverified"
            elif any(n.endswith(".pixel") for n in sched.get(fn, [])):
                st = "rectangle bounded (inner routine replaced by a reference blit)"
                ent["jobs"] = sorted(sched.get(fn, []))
            else:
                st = "unverified"
            ent["status"] = st
            ents.append(ent)
        out[table] = ents
    summ = {}
    for table, ents in out.items():
        c = {}
        for e in ents:
            k = re.sub(r" for \d+ of \d+ repeat instances.*", "", e["status"].split(";")[0].split(" (")[0])
            if e["status"].startswith("unverified (harness"):
                k = "unverified (harness mode exists, not scheduled)"
            if "row proved for any width" in e["status"]:
                k = "row proved for any width + row bounded"
            c[k] = c.get(k, 0) + 1
        summ[table] = dict(sorted(c.items()), total=len(ents))
    out["summary"] = summ
    return out


def table_job():
    def fn(workdir):
        t = scan_tables()
        obl = []
        for name in ("sse2_fast_paths", "c_fast_paths"):
            ents = t.get(name, [])
            obl.append(("tables.%s.found_and_non_empty" % name, len(ents) > 10, "%d entries" % len(ents)))
            n_un = sum(1 for e in ents if e["status"].startswith("unverified"))
            obl.append(("tables.%s.status_listed" % name, True, "%d entries: %d unverified, %d with a status" % (len(ents), n_un, len(ents) - n_un)))
        with open(os.path.join(os.environ.get("VERIF_EVIDENCE_DIR") or os.path.join(VERIF, "evidence"), "C02_tables.json"), "w") as f:
            json.dump(t, f, indent=1)
        return obl
    return PyJob("tables.scan", fn, kind="bounded", bound="source-text scan, no semantic claim", functions=[], min_props=4,
                 domain="every entry of sse2_fast_paths and c_fast_paths with status {kernel proved, row bounded, rectangle bounded, scanline kernel bounded, C19, unverified, terminator}, the jobs and the operand formats they use: evidence/C02_tables.json",
                 timeout=60)


def selftest_job():
    def fn(workdir):
        exe = os.path.join(workdir, "selftest")
        cmd = ["gcc", "-O1", "-w", "-msse2", "-mssse3", "-I" + os.path.join(VERIF, "models"),
               os.path.join(VERIF, "harness", "C02", "models_selftest.c"), "-o", exe]
        rc, out, err, _, _ = sh(cmd, timeout=120)
        if rc != 0:
            return [("models.selftest.builds", False, err[-300:])]
        rc, out, err, _, to = sh([exe], timeout=120)
        obl = [("models.selftest.builds", True, "")]
        for line in out.splitlines():
            m = re.match(r"(ok|FAIL) (\S+) (.*)", line)
            if m:
                obl.append(("models." + m.group(2) + ".equals_real_instruction", m.group(1) == "ok", m.group(3)))
        return obl
    return PyJob("models.selftest", fn, kind="bounded", bound="2*10^5 random + corner vectors per builtin, run natively",
                 functions=[], min_props=15, domain="each C model of a __builtin_ia32_* builtin vs the real instruction", timeout=300)


# Row jobs of fastfmt_jobs / sse2c_jobs that have a measured passing run on the unchanged tree: CPU seconds (cbmc + kissat,
# measured while the machine was shared, so wall clock was 1-4x that).  ONLY these are scheduled (timeout = max (1800,
# 12 x measured)); every other (routine, channel) combination the two generators can produce is a harness mode that exists
# but has no measured run, is not scheduled and is not counted as covered in evidence/C02_tables.json.
# C02_UNMEASURED=1 in the environment schedules all of them (exploration).
MEASURED = {
    "fast.fast_composite_add_0565_0565.ch0": 29,
    "fast.fast_composite_add_0565_0565.ch1": 30,
    "fast.fast_composite_add_0565_0565.ch2": 30,
    "fast.fast_composite_add_0565_0565.ch4": 33,
    "fast.fast_composite_add_1_1.ch3": 26,
    "fast.fast_composite_add_1_1.ch4": 27,
    "fast.fast_composite_add_n_8888_8888_ca.ch4": 33,
    "fast.fast_composite_add_n_8888_8888_ca.x012.ch1": 60,
    "fast.fast_composite_add_n_8888_8888_ca.x012.ch3": 67,
    "fast.fast_composite_add_n_8_8.ch4": 31,
    "fast.fast_composite_add_n_8_8.x012.ch3": 60,
    "fast.fast_composite_in_8_8.ch3": 58,
    "fast.fast_composite_in_8_8.ch4": 32,
    "fast.fast_composite_in_n_8_8.ch4": 32,
    "fast.fast_composite_over_8888_0565.ch0": 39,
    "fast.fast_composite_over_8888_0565.ch1": 40,
    "fast.fast_composite_over_8888_0565.ch2": 41,
    "fast.fast_composite_over_8888_0565.ch4": 29,
    "fast.fast_composite_over_n_1_0565.ch1": 56,
    "fast.fast_composite_over_n_1_0565.ch4": 31,
    "fast.fast_composite_over_n_1_8888.ch1": 80,
    "fast.fast_composite_over_n_1_8888.ch3": 88,
    "fast.fast_composite_over_n_1_8888.ch4": 33,
    "fast.fast_composite_over_n_8_0888.ch4": 30,
    "fast.fast_composite_solid_fill.a1.ch4": 30,
    "fast.fast_composite_solid_fill.a1.ch5": 26,
    "fast.fast_composite_solid_fill.a8.ch4": 26,
    "fast.fast_composite_solid_fill.a8.ch5": 26,
    "fast.fast_composite_solid_fill.a8r8g8b8.ch4": 26,
    "fast.fast_composite_solid_fill.a8r8g8b8.ch5": 28,
    "fast.fast_composite_solid_fill.r5g6b5.ch4": 27,
    "fast.fast_composite_solid_fill.r5g6b5.ch5": 26,
    "fast.fast_composite_src_memcpy.a8.ch4": 32,
    "fast.fast_composite_src_memcpy.a8.ch5": 31,
    "fast.fast_composite_src_memcpy.a8r8g8b8.ch4": 32,
    "fast.fast_composite_src_memcpy.a8r8g8b8.ch5": 32,
    "fast.fast_composite_src_memcpy.b8g8r8a8.ch4": 30,
    "fast.fast_composite_src_memcpy.b8g8r8a8.ch5": 31,
    "fast.fast_composite_src_memcpy.r5g6b5.ch4": 30,
    "fast.fast_composite_src_memcpy.r5g6b5.ch5": 31,
    "fast.fast_composite_src_memcpy.r8g8b8.ch4": 40,
    "fast.fast_composite_src_memcpy.r8g8b8.ch5": 41,
    "fast.fast_composite_src_memcpy.x1r5g5b5.ch4": 28,
    "fast.fast_composite_src_memcpy.x1r5g5b5.ch5": 30,
    "fast.fast_composite_src_x888_8888.ch0": 31,
    "fast.fast_composite_src_x888_8888.ch1": 31,
    "fast.fast_composite_src_x888_8888.ch2": 31,
    "fast.fast_composite_src_x888_8888.ch3": 31,
    "fast.fast_composite_src_x888_8888.ch4": 31,
    "sse2c.sse2_composite_add_8888_8888.ch1": 53,
    "sse2c.sse2_composite_add_8888_8888.ch4": 36,
    "sse2c.sse2_composite_add_8_8.ch3": 159,
    "sse2c.sse2_composite_add_8_8.ch4": 122,
    "sse2c.sse2_composite_add_n_8.ch3": 82,
    "sse2c.sse2_composite_add_n_8.ch4": 50,
    "sse2c.sse2_composite_add_n_8888.ch1": 48,
    "sse2c.sse2_composite_add_n_8888.ch4": 36,
    "sse2c.sse2_composite_in_8_8.ch4": 104,
    "sse2c.sse2_composite_in_8_8.k8.ch3": 223,
    "sse2c.sse2_composite_over_8888_0565.ch4": 131,
    "sse2c.sse2_composite_over_8888_8888.ch1": 208,
    "sse2c.sse2_composite_over_8888_8888.ch4": 56,
    "sse2c.sse2_composite_over_n_0565.ch1": 247,
    "sse2c.sse2_composite_over_n_8888.ch1": 162,
    "sse2c.sse2_composite_over_n_8888.ch3": 115,
    "sse2c.sse2_composite_over_n_8888.ch4": 41,
    "sse2c.sse2_composite_over_n_8_8888.ch4": 54,
    "sse2c.sse2_composite_over_reverse_n_8888.ch1": 149,
    "sse2c.sse2_composite_src_x888_0565.ch0": 74,
    "sse2c.sse2_composite_src_x888_0565.ch1": 75,
    "sse2c.sse2_composite_src_x888_0565.ch2": 75,
    "sse2c.sse2_composite_src_x888_0565.ch4": 53,
    "sse2c.sse2_composite_src_x888_8888.ch0": 111,
    "sse2c.sse2_composite_src_x888_8888.ch1": 116,
    "sse2c.sse2_composite_src_x888_8888.ch2": 117,
    "sse2c.sse2_composite_src_x888_8888.ch3": 112,
    "sse2c.sse2_composite_src_x888_8888.ch4": 84,
}
# measured in the extension session `fst' (wall seconds of one run on the shared machine, >= CPU seconds)
MEASURED_FST = {
    "fast.fast_composite_add_n_8888_8888_ca.x012.k0.ch1": 48,
    "fast.fast_composite_add_n_8888_8888_ca.x012.k1.ch0": 41,
    "fast.fast_composite_add_n_8888_8888_ca.x012.k1.ch1": 45,
    "fast.fast_composite_add_n_8888_8888_ca.x012.k1.ch2": 36,
    "fast.fast_composite_add_n_8888_8888_ca.x012.k1.ch3": 37,
    "fast.fast_composite_add_n_8888_8888_ca.x012.k2.ch1": 44,
    "fast.fast_composite_add_n_8_8.x012.k0.ch3": 25,
    "fast.fast_composite_add_n_8_8.x012.k1.ch3": 25,
    "fast.fast_composite_add_n_8_8.x012.k2.ch3": 29,
    "fast.fast_composite_in_n_8_8.x012.k0.ch3": 79,
    "fast.fast_composite_in_n_8_8.x012.k1.ch3": 84,
    "fast.fast_composite_in_n_8_8.x012.k2.ch3": 84,
    "fast.fast_composite_over_n_1_0565.ch0": 38,
    "fast.fast_composite_over_n_1_0565.ch2": 50,
    "fast.fast_composite_over_n_1_8888.ch0": 62,
    "fast.fast_composite_over_n_1_8888.ch2": 68,
    "fast.fast_composite_over_n_8888_0565_ca.ch4": 30,
    "fast.fast_composite_over_n_8888_0565_ca.x012.k0.ch1": 77,
    "fast.fast_composite_over_n_8888_0565_ca.x012.k1.ch0": 57,
    "fast.fast_composite_over_n_8888_0565_ca.x012.k1.ch1": 74,
    "fast.fast_composite_over_n_8888_0565_ca.x012.k1.ch2": 64,
    "fast.fast_composite_over_n_8888_0565_ca.x012.k2.ch1": 80,
    "fast.fast_composite_over_n_8888_8888_ca.ch4": 44,
    "fast.fast_composite_over_n_8888_8888_ca.x012.k0.ch1": 151,
    "fast.fast_composite_over_n_8888_8888_ca.x012.k1.ch0": 156,
    "fast.fast_composite_over_n_8888_8888_ca.x012.k1.ch1": 145,
    "fast.fast_composite_over_n_8888_8888_ca.x012.k1.ch2": 130,
    "fast.fast_composite_over_n_8888_8888_ca.x012.k1.ch3": 126,
    "fast.fast_composite_over_n_8888_8888_ca.x012.k2.ch1": 126,
    "fast.fast_composite_over_n_8_0565.ch4": 24,
    "fast.fast_composite_over_n_8_0565.x012.k0.ch1": 35,
    "fast.fast_composite_over_n_8_0565.x012.k1.ch0": 34,
    "fast.fast_composite_over_n_8_0565.x012.k1.ch1": 35,
    "fast.fast_composite_over_n_8_0565.x012.k1.ch2": 32,
    "fast.fast_composite_over_n_8_0565.x012.k2.ch1": 33,
    "fast.fast_composite_over_n_8_0888.x012.k0.ch1": 45,
    "fast.fast_composite_over_n_8_0888.x012.k1.ch0": 53,
    "fast.fast_composite_over_n_8_0888.x012.k1.ch1": 54,
    "fast.fast_composite_over_n_8_0888.x012.k1.ch2": 56,
    "fast.fast_composite_over_n_8_0888.x012.k2.ch1": 48,
    "fast.fast_composite_over_n_8_8888.x012.k0.ch1": 33,
    "fast.fast_composite_over_n_8_8888.x012.k1.ch0": 33,
    "fast.fast_composite_over_n_8_8888.x012.k1.ch1": 41,
    "fast.fast_composite_over_n_8_8888.x012.k1.ch2": 51,
    "fast.fast_composite_over_n_8_8888.x012.k2.ch1": 43,
    "fast.fast_composite_over_x888_8_8888.ch4": 37,
    "fast.fast_composite_over_x888_8_8888.x012.k0.ch1": 26,
    "fast.fast_composite_over_x888_8_8888.x012.k1.ch0": 29,
    "fast.fast_composite_over_x888_8_8888.x012.k1.ch1": 27,
    "fast.fast_composite_over_x888_8_8888.x012.k1.ch2": 29,
    "fast.fast_composite_over_x888_8_8888.x012.k1.ch3": 30,
    "fast.fast_composite_over_x888_8_8888.x012.k2.ch1": 30,
    "nearest.scaled_nearest_scanline_565_565_SRC.ch4": 4,
    "nearest.scaled_nearest_scanline_565_565_SRC.ch5": 5,
    "nearest.scaled_nearest_scanline_8888_565_cover_OVER.ch4": 3,
    "nearest.scaled_nearest_scanline_8888_565_cover_OVER.k0.ch0": 8,
    "nearest.scaled_nearest_scanline_8888_565_cover_OVER.k0.ch1": 11,
    "nearest.scaled_nearest_scanline_8888_565_cover_OVER.k0.ch2": 7,
    "nearest.scaled_nearest_scanline_8888_565_cover_OVER.k1.ch0": 8,
    "nearest.scaled_nearest_scanline_8888_565_cover_OVER.k1.ch1": 10,
    "nearest.scaled_nearest_scanline_8888_565_cover_OVER.k1.ch2": 7,
    "nearest.scaled_nearest_scanline_8888_565_cover_OVER.k2.ch0": 7,
    "nearest.scaled_nearest_scanline_8888_565_cover_OVER.k2.ch1": 10,
    "nearest.scaled_nearest_scanline_8888_565_cover_OVER.k2.ch2": 8,
    "nearest.scaled_nearest_scanline_8888_565_cover_SRC.ch4": 3,
    "nearest.scaled_nearest_scanline_8888_565_cover_SRC.ch5": 4,
    "nearest.scaled_nearest_scanline_8888_565_none_OVER.ch4": 3,
    "nearest.scaled_nearest_scanline_8888_565_none_OVER.k1.ch1": 11,
    "nearest.scaled_nearest_scanline_8888_565_none_SRC.ch4": 3,
    "nearest.scaled_nearest_scanline_8888_565_none_SRC.ch5": 4,
    "nearest.scaled_nearest_scanline_8888_565_pad_OVER.ch4": 5,
    "nearest.scaled_nearest_scanline_8888_565_pad_OVER.k1.ch1": 11,
    "nearest.scaled_nearest_scanline_8888_565_pad_SRC.ch4": 3,
    "nearest.scaled_nearest_scanline_8888_565_pad_SRC.ch5": 4,
    "nearest.scaled_nearest_scanline_8888_8888_cover_OVER.ch4": 3,
    "nearest.scaled_nearest_scanline_8888_8888_cover_OVER.k0.ch0": 15,
    "nearest.scaled_nearest_scanline_8888_8888_cover_OVER.k0.ch1": 16,
    "nearest.scaled_nearest_scanline_8888_8888_cover_OVER.k0.ch2": 17,
    "nearest.scaled_nearest_scanline_8888_8888_cover_OVER.k0.ch3": 12,
    "nearest.scaled_nearest_scanline_8888_8888_cover_OVER.k1.ch0": 18,
    "nearest.scaled_nearest_scanline_8888_8888_cover_OVER.k1.ch1": 17,
    "nearest.scaled_nearest_scanline_8888_8888_cover_OVER.k1.ch2": 18,
    "nearest.scaled_nearest_scanline_8888_8888_cover_OVER.k1.ch3": 11,
    "nearest.scaled_nearest_scanline_8888_8888_cover_OVER.k2.ch0": 18,
    "nearest.scaled_nearest_scanline_8888_8888_cover_OVER.k2.ch1": 18,
    "nearest.scaled_nearest_scanline_8888_8888_cover_OVER.k2.ch2": 16,
    "nearest.scaled_nearest_scanline_8888_8888_cover_OVER.k2.ch3": 11,
    "nearest.scaled_nearest_scanline_8888_8888_cover_SRC.ch4": 3,
    "nearest.scaled_nearest_scanline_8888_8888_cover_SRC.ch5": 4,
    "nearest.scaled_nearest_scanline_8888_8888_none_OVER.ch4": 3,
    "nearest.scaled_nearest_scanline_8888_8888_none_OVER.k1.ch1": 15,
    "nearest.scaled_nearest_scanline_8888_8888_none_SRC.ch4": 3,
    "nearest.scaled_nearest_scanline_8888_8888_none_SRC.ch5": 4,
    "nearest.scaled_nearest_scanline_8888_8888_pad_OVER.ch4": 4,
    "nearest.scaled_nearest_scanline_8888_8888_pad_OVER.k1.ch1": 15,
    "nearest.scaled_nearest_scanline_8888_8888_pad_SRC.ch4": 3,
    "nearest.scaled_nearest_scanline_8888_8888_pad_SRC.ch5": 4,
    "nearest.scaled_nearest_scanline_x888_8888_cover_SRC.ch4": 3,
    "nearest.scaled_nearest_scanline_x888_8888_cover_SRC.ch5": 4,
    "nearest.scaled_nearest_scanline_x888_8888_pad_SRC.ch4": 3,
    "nearest.scaled_nearest_scanline_x888_8888_pad_SRC.ch5": 4,
    "rotate.fast_composite_rotate_270_565.small.pixel": 39,
    "rotate.fast_composite_rotate_270_8.small.pixel": 30,
    "rotate.fast_composite_rotate_270_8888.small.pixel": 53,
    "rotate.fast_composite_rotate_270_8888.tiles.frame": 253,
    "rotate.fast_composite_rotate_270_8888.tiles.pixel": 367,
    "rotate.fast_composite_rotate_90_565.small.pixel": 37,
    "rotate.fast_composite_rotate_90_8.small.pixel": 35,
    "rotate.fast_composite_rotate_90_8888.small.pixel": 64,
    "rotate.fast_composite_rotate_90_8888.tiles.frame": 301,
    "rotate.fast_composite_rotate_90_8888.tiles.pixel": 376,
    "sse2c.sse2_composite_add_8888_8888.ch0": 66,
    "sse2c.sse2_composite_add_8888_8888.ch2": 77,
    "sse2c.sse2_composite_add_8888_8888.ch3": 85,
    "sse2c.sse2_composite_add_n_8888.ch0": 58,
    "sse2c.sse2_composite_add_n_8888.ch2": 58,
    "sse2c.sse2_composite_add_n_8888.ch3": 49,
    "sse2c.sse2_composite_add_n_8888_8888_ca.ch4": 42,
    "sse2c.sse2_composite_add_n_8888_8888_ca.k2.ch1": 46,
    "sse2c.sse2_composite_add_n_8_8.ch4": 87,
    "sse2c.sse2_composite_add_n_8_8.k0.ch3": 200,
    "sse2c.sse2_composite_add_n_8_8.k17.ch3": 201,
    "sse2c.sse2_composite_add_n_8_8.k8.ch3": 198,
    "sse2c.sse2_composite_add_n_8_8888.ch4": 36,
    "sse2c.sse2_composite_add_n_8_8888.k0.ch1": 60,
    "sse2c.sse2_composite_add_n_8_8888.k0.ch3": 61,
    "sse2c.sse2_composite_add_n_8_8888.k2.ch1": 62,
    "sse2c.sse2_composite_add_n_8_8888.k2.ch3": 60,
    "sse2c.sse2_composite_add_n_8_8888.k5.ch1": 62,
    "sse2c.sse2_composite_add_n_8_8888.k5.ch3": 62,
    "sse2c.sse2_composite_in_8_8.k0.ch3": 159,
    "sse2c.sse2_composite_in_8_8.k17.ch3": 153,
    "sse2c.sse2_composite_in_n_8.ch4": 83,
    "sse2c.sse2_composite_in_n_8.k0.ch3": 195,
    "sse2c.sse2_composite_in_n_8.k17.ch3": 162,
    "sse2c.sse2_composite_in_n_8.k8.ch3": 177,
    "sse2c.sse2_composite_in_n_8_8.ch4": 96,
    "sse2c.sse2_composite_in_n_8_8.k17.ch3": 321,
    "sse2c.sse2_composite_in_n_8_8.k8.ch3": 818,
    "sse2c.sse2_composite_over_8888_0565.ch0": 324,
    "sse2c.sse2_composite_over_8888_0565.ch1": 357,
    "sse2c.sse2_composite_over_8888_0565.ch2": 317,
    "sse2c.sse2_composite_over_8888_8888.ch0": 191,
    "sse2c.sse2_composite_over_8888_8888.ch2": 190,
    "sse2c.sse2_composite_over_8888_8888.ch3": 194,
    "sse2c.sse2_composite_over_8888_8888_8888.ch4": 68,
    "sse2c.sse2_composite_over_8888_8888_8888.k2.ch1": 115,
    "sse2c.sse2_composite_over_8888_8_8888.ch4": 68,
    "sse2c.sse2_composite_over_8888_8_8888.k0.ch1": 97,
    "sse2c.sse2_composite_over_8888_8_8888.k0.ch3": 145,
    "sse2c.sse2_composite_over_8888_8_8888.k2.ch1": 107,
    "sse2c.sse2_composite_over_8888_8_8888.k2.ch3": 209,
    "sse2c.sse2_composite_over_8888_8_8888.k5.ch1": 235,
    "sse2c.sse2_composite_over_8888_8_8888.k5.ch3": 259,
    "sse2c.sse2_composite_over_8888_n_8888.ch4": 69,
    "sse2c.sse2_composite_over_8888_n_8888.k2.ch1": 268,
    "sse2c.sse2_composite_over_n_0565.ch0": 183,
    "sse2c.sse2_composite_over_n_0565.ch2": 192,
    "sse2c.sse2_composite_over_n_0565.ch4": 98,
    "sse2c.sse2_composite_over_n_8888.ch0": 164,
    "sse2c.sse2_composite_over_n_8888.ch2": 163,
    "sse2c.sse2_composite_over_n_8888_0565_ca.ch4": 152,
    "sse2c.sse2_composite_over_n_8888_8888_ca.ch4": 51,
    "sse2c.sse2_composite_over_n_8888_8888_ca.k2.ch1": 337,
    "sse2c.sse2_composite_over_n_8_0565.ch4": 152,
    "sse2c.sse2_composite_over_n_8_0565.k4.ch1": 281,
    "sse2c.sse2_composite_over_n_8_8888.k0.ch1": 108,
    "sse2c.sse2_composite_over_n_8_8888.k0.ch3": 274,
    "sse2c.sse2_composite_over_n_8_8888.k2.ch1": 224,
    "sse2c.sse2_composite_over_n_8_8888.k2.ch3": 89,
    "sse2c.sse2_composite_over_n_8_8888.k5.ch1": 121,
    "sse2c.sse2_composite_over_n_8_8888.k5.ch3": 152,
    "sse2c.sse2_composite_over_pixbuf_0565.ch4": 149,
    "sse2c.sse2_composite_over_pixbuf_0565.k4.ch0": 168,
    "sse2c.sse2_composite_over_pixbuf_0565.k4.ch1": 207,
    "sse2c.sse2_composite_over_pixbuf_8888.ch4": 59,
    "sse2c.sse2_composite_over_pixbuf_8888.k2.ch0": 245,
    "sse2c.sse2_composite_over_pixbuf_8888.k2.ch1": 111,
    "sse2c.sse2_composite_over_reverse_n_8888.ch0": 118,
    "sse2c.sse2_composite_over_reverse_n_8888.ch2": 112,
    "sse2c.sse2_composite_over_reverse_n_8888.ch3": 113,
    "sse2c.sse2_composite_over_reverse_n_8888.ch4": 39,
    "sse2c.sse2_composite_over_x888_8_8888.ch4": 81,
    "sse2c.sse2_composite_over_x888_8_8888.k0.ch1": 99,
    "sse2c.sse2_composite_over_x888_8_8888.k2.ch1": 158,
    "sse2c.sse2_composite_over_x888_n_8888.ch4": 47,
    "sse2c.sse2_composite_over_x888_n_8888.k2.ch1": 418,
    "sse2c.sse2_composite_src_n_8_8888.ch4": 36,
    "sse2c.sse2_composite_src_n_8_8888.k0.ch1": 46,
    "sse2c.sse2_composite_src_n_8_8888.k0.ch3": 52,
    "sse2c.sse2_composite_src_n_8_8888.k2.ch1": 47,
    "sse2c.sse2_composite_src_n_8_8888.k2.ch3": 48,
    "sse2c.sse2_composite_src_n_8_8888.k5.ch1": 49,
    "sse2c.sse2_composite_src_n_8_8888.k5.ch3": 44,
    "sse2fetch.sse2_fetch_a8.b3.w18.frame": 16,
    "sse2fetch.sse2_fetch_a8.b3.w18.pixel": 20,
    "sse2fetch.sse2_fetch_r5g6b5.b3.w10.frame": 21,
    "sse2fetch.sse2_fetch_r5g6b5.b3.w10.pixel": 18,
    "sse2fetch.sse2_fetch_x8r8g8b8.b3.w6.frame": 8,
    "sse2fetch.sse2_fetch_x8r8g8b8.b3.w6.pixel": 13,
    "tiled.fast_composite_tiled_repeat.narrow16.frame": 126,
    "tiled.fast_composite_tiled_repeat.narrow16.pixel": 138,
    "tiled.fast_composite_tiled_repeat.narrow32.frame": 240,
    "tiled.fast_composite_tiled_repeat.narrow32.pixel": 270,
    "tiled.fast_composite_tiled_repeat.narrow8.frame": 130,
    "tiled.fast_composite_tiled_repeat.narrow8.pixel": 163,
}
MEASURED.update(MEASURED_FST)


def fst_keep(name):
    """thorough-tier economy for the jobs measured in the extension session (MEASURED_FST; the jobs scheduled before are all kept):
    every routine keeps its frame job, the green and alpha channel (one `ag' lane of the packed arithmetic each; channel 2 = one
    `rb' lane for the masked C routines), every pixel class (head / body / tail, or every position of the 3-pixel row) for channel 1"""
    if name not in MEASURED_FST:
        return True
    m = re.match(r"sse2c\.\w+?\.(?:k(\d+)\.)?ch(\d)$", name)
    if m:
        k, ch = m.group(1), int(m.group(2))
        if ch == 4 or ch == 1 or (ch == 0 and "pixbuf" in name):     # pixbuf: channel 0 is where red and blue are swapped
            return True
        if k is None:
            return ch == 3
        return ch == 3 and k in ("2", "4", "8")
    m = re.match(r"fast\.\w+?\.x\d+\.k(\d)\.ch(\d)$", name)
    if m:
        return not (m.group(2) == "0")
    if name.startswith("tiled.") and name.endswith(".frame") and "narrow32" not in name:
        return False
    if name.startswith("rotate.") and name.endswith("270_8888.tiles.frame"):
        return False
    return True


def measured_only(js):
    if os.environ.get("C02_UNMEASURED"):
        return js
    out = []
    for j in js:
        if j.name in MEASURED and fst_keep(j.name):
            j.timeout = max(1800, int(12 * MEASURED[j.name]))
            out.append(j)
    return out


# ---- extension `fst': job families added after the first pass; same rule: only jobs with a measured passing run are scheduled
# (MEASURED), the quick tier runs the few named in QUICK_EXTRA
QUICK_EXTRA = {
    "fast.fast_composite_over_n_8_0565.x012.k1.ch1", "fast.fast_composite_over_x888_8_8888.x012.k1.ch1",
    "nearest.scaled_nearest_scanline_8888_565_cover_OVER.k1.ch1", "nearest.scaled_nearest_scanline_565_565_SRC.ch5",
    "sse2fetch.sse2_fetch_r5g6b5.b3.w10.pixel", "rotate.fast_composite_rotate_270_565.small.pixel",
    "sse2c.sse2_composite_add_n_8_8888.k2.ch1",
}


def fst_jobs(tier):
    js = measured_only(rowd_jobs("thorough") + rotate_jobs("thorough") + nearest_jobs("thorough") + tiled_jobs("thorough") +
                       sse2_fetch_jobs("thorough"))
    if tier == "quick":
        js = [j for j in js if j.name in QUICK_EXTRA]
    return js


def scheduled_row_jobs():
    """names of the row / rectangle / scanline jobs scheduled in the thorough tier, per routine"""
    by = {}
    for j in fastpath_jobs("thorough") + measured_only(fastfmt_jobs("thorough") + sse2c_jobs("thorough")) + fst_jobs("thorough"):
        by.setdefault(j.functions[0], []).append(j.name)
    return by


# extension modules merged into this property's job list (vdriver.ext_jobs / ext_meta)
EXT = [
    ("C02_sscl", None),
    # the scaled fast paths differ from the general path only by their main loops / bounds helper: C08's jobs for them are C02 obligations
    # (an implementation that samples a different pixel is not bit-identical) (seeds C02-5, C08-3, C08-4)
    ("C08", lambda n: n.startswith(("pad_bounds", "scl."))),
]


def jobs(tier):
    js = dispatch_jobs(tier) + sse2_jobs(tier) + fastpath_jobs(tier) + measured_only(fastfmt_jobs(tier) + sse2c_jobs(tier))
    if tier == "quick":
        have = {j.name for j in js}
        js += [j for j in measured_only(fastfmt_jobs("thorough") + sse2c_jobs("thorough")) if j.name in QUICK_EXTRA and j.name not in have]
    js += fst_jobs(tier)
    js.append(table_job())
    if os.path.exists(os.path.join(VERIF, "harness", "C02", "models_selftest.c")):
        js.append(selftest_job())
    return js + ext_jobs(tier, EXT)


META = {
    "level": "proof",
    "trusted_base": ["spec/spec_un8.h + spec_op.h (C01 spec)", "spec/spec_format.h (C10 literal format table, WIDEN / NARROW)",
                     "spec/spec_fst.h (composition of the two for raw pixels: FST_POST); the geometric statements written in the harnesses "
                     "fst_rotate.c (nearest sample of the rotated pixel centre), fst_tiled.c (source pixel modulo size), fst_nearest.c (sample at vx + k unit_x)",
                     "models/sse2_models_combine.h: Intel SDM lane semantics of the SSE2/SSSE3 builtins",
                     "CBMC memory model: objects are 16-byte aligned (offset 0); natively aligned(16) buffers"],
    "assumptions": [
        "A == B is decided as `A meets S and B meets S' with S the C01 spec composed with the C10 format codecs; the general path's combiners are C01's obligations",
        "dispatch proved on stub chains (2-3 implementations x <=3 symbolic entries); the real tables are only scanned textually (tables.scan)",
        "SSE2 masked / component-alpha kernels: only the subset listed in the thorough tier (each query 200-300 CPU s)",
        "row jobs (fast.* / sse2c.*): one row (height 1), width 3 (C) or one head pixel + one vector body + one tail pixel at a fixed 16-byte phase (SSE2); "
        "a routine registered for a8b8g8r8 / b5g6r5 / x-channel variants is checked with the a8r8g8b8 / r5g6b5 operands only (same code path, channel renaming)",
        "masked row jobs (*.k<n>.*): x offsets and the ghost pixel are fixed per query; every pixel position of the row is a query for one channel, the middle / body pixel for the others",
        "pixbuf entries: the request `source x8b8g8r8 and mask a8r8g8b8 on the same pixel buffer, OVER' is specified by the ordinary C01 equation with s = WIDEN_x8b8g8r8 (p), m = WIDEN_a8r8g8b8 (p)",
        "sse2c.* masked pixel queries run with --slice-formula (cone of influence of the obligations; assumptions and the canary are kept)",
    ],
    "not_covered": ["MMX kernels (three inline-asm primitives need C bodies)", "SSSE3 bilinear fetcher", "sse2_combine_saturate_u (no C01 spec for SATURATE)",
                    "fast_composite_scaled_nearest (16 NEAREST_FAST_PATH entries), "
                    "the NORMAL-repeat instances of the nearest scanline helpers, every SSE2 scaled nearest / bilinear entry (32 entries): `unverified' in C02_tables.json",
                    "vector body colour channels 0 and 2 of sse2_combine_{atop,atop_reverse,xor}_u (channel 1 at lane 2 and the alpha channel at every lane are checked)",
                    "every row of height > 1 (stride walk) of the fast.* / sse2c.* jobs, widths beyond one vector body; masked rows: the pixel positions / channels "
                    "not named in the scheduled jobs (evidence/C02_tables.json lists jobs per entry)",
                    "UNBOUNDED row contracts on the C fast paths (route D, harness/C02/fst_rowd.c + rowd_jobs, C02_UNMEASURED=1 builds them): did not close with CBMC 6.11. "
                    "(a) the un-contracted outer `while (height--)' loop gets an INFERRED write set that omits `height' (assigned in the loop condition) and has more "
                    "targets than dfcc unwinds its own library loops for -> spurious `height / dst_line is assignable' and library unwinding failures; "
                    "(b) an explicit two-state contract on the outer loop (height == 1 untouched / height == 0 row done) instruments four copies of the row body: "
                    "symbolic execution 410-630 s, then out of memory (14 GB) in propositional reduction, for the simplest routine (src_x888_8888). "
                    "The rows stay bounded (width 3 / one vector body)",
                    "macro-generated scaled nearest/bilinear main loops (nearest.*: scanline helper only)",
                    "pixman-x86.c CPU detection (cpuid inline asm)", "pixman_blt / pixman_fill (C19)"],
    "explanation": "per-entry status of sse2_fast_paths / c_fast_paths with the names of the scheduled jobs: evidence/C02_tables.json (written by job tables.scan)",
}
META = ext_meta(META, EXT)
