"""C05 extension `opv` — pixman_op() and validate() of pixman-region.c under contract (modular verification).

pixman_op is verified against the CONTRACT of its overlap procedure (a stub handed in through the function-pointer
parameter) instead of the bodies of pixman_region_{intersect,union,subtract}_o; validate() is verified against the
contract of pixman_op.  Harnesses: harness/C05/opv_*.c, set-up harness/C05/opv_rh.h.
Obligations named c06.* / c15.* belong to those properties as well (canonical result shape; allocation failure).
"""
from vdriver import Job

LEAK = ["--memory-leak-check"]
# loops of the harness / specification code get their own (generous) bound by NAME, so that Job.unwind can stay as
# small as the library loops need (band length, bands per operand); ids that do not exist are ignored by cbmc
_OWN = ["harness", "opv_region_canon", "vv_run_layout", "vv_run_one", "vv_list_ok", "validate_canon", "opv_run_layout", "opv_run_one", "opv_next_leaf", "opv_coalesce", "opv_decide", "opv_canon_list", "opv_member_boxes", "opv_make", "opv_make_heap", "opv_same_boxes", "opv_bbox",
        "opv_band_of", "opv_index_of", "opv_overlap", "opv_copy_boxes", "opv_sorted", "opv_run", "opv_pixman_op_contract",
        "sr_member_boxes_r", "sr_canon_list_r", "sr_tight_extents_r"]
UNWINDSET = ["--unwindset", ",".join("%s.%d:64" % (f, i) for f in _OWN for i in range(12)) + ",memcmp.0:72"]
ALIASN = {0: "result object distinct from both operands", 1: "new_reg == reg1", 2: "new_reg == reg2"}
DSTN = {0: "single rectangle", 1: "heap list of 2 boxes, capacity 2", 2: "static empty", 3: "heap list of 2 boxes, capacity 24"}
OPN = {(1, 1): "union", (1, 0): "subtract", (0, 0): "intersect", (0, 1): "inverse"}


def coord(bits):
    return "every int%d coordinate" % bits


# ---------------------------------------------------------------------------------------------- layouts
def compositions(n):
    if n == 0:
        return [[]]
    out = []
    for first in range(1, n + 1):
        for rest in compositions(n - first):
            out.append([first] + rest)
    return out


def order_types(ka, kb):
    """every weak order of the band boundaries of two regions with ka / kb bands (chain a1<a2<=a3<a4<=..., same for b),
    as ranks 0,1,2,...: pixman_op only compares y values, so one representative per order type covers every y."""
    na, nb = 2 * ka, 2 * kb
    out = []

    def takes(pos, n):
        r = [0]
        if pos < n:
            r.append(1)
        if pos + 1 < n and pos % 2 == 1:        # bottom of a band == top of the next one
            r.append(2)
        return r

    def rec(pa, pb, level, ya, yb):
        if pa == na and pb == nb:
            out.append((ya, yb))
            return
        for ta in takes(pa, na):
            for tb in takes(pb, nb):
                if ta or tb:
                    rec(pa + ta, pb + tb, level + 1, ya + [level] * ta, yb + [level] * tb)
    rec(0, 0, 0, [], [])
    return out


def y_layouts(na, nb):
    """per-box y1,y2 lists of both operands: every band composition x every order type"""
    rows = []
    for ca in compositions(na):
        for cb in compositions(nb):
            for ya, yb in order_types(len(ca), len(cb)):
                row = []
                for comp, ys in ((ca, ya), (cb, yb)):
                    for j, c in enumerate(comp):
                        row += [ys[2 * j], ys[2 * j + 1]] * c
                rows.append(row)
    return rows


def k_patterns(calls, full):
    """boxes appended by the overlap stub in its 1st, 2nd, ... call"""
    if full:
        pats = [[]]
        for _ in range(calls):
            pats = [p + [k] for p in pats for k in (0, 1, 2)]
        return pats
    base = [[0] * calls, [1] * calls, [2] * calls, [(2, 1, 0)[i % 3] for i in range(calls)], [(0, 2, 1)[i % 3] for i in range(calls)],
            [(1, 0, 2)[i % 3] for i in range(calls)]]
    out = []
    for b in base:
        if b not in out:
            out.append(b)
    return out


def sample(rows, n, seed):
    """deterministic sample (fixed seed: the same rows in every run)"""
    if len(rows) <= n:
        return rows, False
    import random
    r = random.Random(seed)
    idx = sorted(r.sample(range(len(rows)), n))
    return [rows[i] for i in idx], True


def op_rows(na, nb, max_rows, full_k):
    ys = y_layouts(na, nb)
    ks = k_patterns(na + nb - 1, full_k)
    rows = [y + k for y in ys for k in ks]
    total = len(rows)
    rows, sampled = sample(rows, max_rows, 1000 * na + nb)
    return rows, total, sampled, len(ys)


def op_job(bits, na, nb, alias, rows, total, n_y, spare=0, dst=0, non=(1, 1), fail=False, timeout=900, part=""):
    name = "op%d.%s.n%dx%d.alias%d" % (bits, OPN[non], na, nb, alias)
    if alias == 0:
        name += ".d%d" % dst
    if spare:
        name += ".spare%d" % spare
    if fail:
        name += ".allocfail"
    name += part
    d = {"VR_BITS": bits, "VO_NA": na, "VO_NB": nb, "VO_ALIAS": alias, "VO_SPARE": spare, "VO_DST": dst,
         "VO_NON1": non[0], "VO_NON2": non[1], "VO_NLAY": len(rows),
         "VO_LAYOUTS": ",".join(str(v) for r in rows for v in r)}
    if fail:
        d["VO_FAIL"] = None
    cover = ("all %d" % total) if len(rows) == total else ("%d of the %d (fixed-seed sample%s)" % (len(rows), total, part and ", this part"))
    return Job(name, "C05/opv_op.c", defines=d, kind="bounded",
               bound="operands of exactly %d and %d rectangles; %s combinations of {band composition x order type of the band boundaries (%d) x "
                     "boxes appended per overlap call (0..2)}; x coordinates free" % (na, nb, cover, n_y),
               functions=["pixman_op", "pixman_region_append_non_o", "pixman_rect_alloc", "pixman_break"],
               unwind=max(na, nb, 2) + na + nb + 1, cbmc_flags=LEAK + UNWINDSET, timeout=timeout, min_props=12, object_bits=11,
               domain="%s x coordinates; %s; operands canonical with %d / %d rectangles, heap arrays with %d spare slots; append_non1/2 = %d/%d "
                      "(%s); %s%s; overlap procedure = contract stub (checks its precondition against ghost copies of the operands, appends "
                      "0..2 legal boxes); ghost point anywhere"
                      % (coord(bits), ALIASN[alias], na, nb, spare, non[0], non[1], OPN[non],
                         ("destination before the call: %s; " % DSTN[dst]) if alias == 0 else "",
                         "k-th allocation fails iff bit k of a free 32-bit mask" if fail else "no allocation fails"),
               assumptions=["overlap procedure replaced by its contract (bodies: band.* jobs of C05)",
                            "pixman_coalesce replaced by its contract (body: leaf*.coalesce.* jobs of C05)",
                            "y coordinates: one representative (small integers) per order type of the band boundaries; pixman_op only compares y values"])


ROWS_PER_JOB = 3     # symbolic execution and solver time grow faster than linearly with the rows of one query


# rows that are always part of a 1 x 2 case: both operands cover the same rows only, so the result is exactly what the overlap
# procedure appends: 1 box (-> stored inline, data == NULL), 0 boxes (-> shared empty block), 2 boxes
PINNED_1x2 = [[0, 1, 0, 1, 0, 1, 1, 0], [0, 1, 0, 1, 0, 1, 0, 0], [0, 1, 0, 1, 0, 1, 2, 0]]


def op_case(bits, na, nb, alias, n_rows, full_k, pinned=None, **kw):
    """jobs for one (sizes, aliasing, memory shape) case: n_rows layout rows in chunks of ROWS_PER_JOB"""
    rows, total, sampled, n_y = op_rows(na, nb, n_rows, full_k)
    if pinned:
        rows = [r for r in pinned] + [r for r in rows if r not in pinned]
    js = []
    for c in range(0, len(rows), ROWS_PER_JOB):
        part = ".p%02d" % (c // ROWS_PER_JOB) if len(rows) > ROWS_PER_JOB else ""
        js.append(op_job(bits, na, nb, alias, rows[c:c + ROWS_PER_JOB], total, n_y, part=part, **kw))
    return js


def op_jobs(tier):
    js = []
    U, S, I, V = (1, 1), (1, 0), (0, 0), (0, 1)
    if tier == "quick":
        # result object == 2nd operand with several rectangles, 1st operand a single rectangle (the old_data decision
        # for reg2), array exactly full and with spare room
        js += op_case(32, 1, 2, 2, 3, True, pinned=PINNED_1x2)
        js += op_case(32, 1, 2, 2, 3, True, pinned=PINNED_1x2, spare=4)
        js += op_case(32, 2, 1, 1, 3, True)
        js += op_case(32, 1, 2, 0, 3, True, dst=1)
        js += op_case(32, 2, 2, 2, 3, False, non=S)
        js += op_case(32, 1, 2, 2, 2, True, fail=True)
        js += op_case(16, 1, 2, 2, 3, True, spare=4)
        return js
    js = op_jobs("quick")
    for na in (1, 2, 3):
        for nb in (1, 2, 3):
            if (na, nb) == (3, 3):
                continue                    # 3 x 3: no result in 13 min for 3 rows (many coalescing leaves): not included
            if (na, nb) == (1, 1):
                n = 6
            else:
                n = 3
            full = na + nb <= 3
            for alias in (1, 2):
                for spare in (0, 4):
                    if spare and ((alias == 1 and na == 1) or (alias == 2 and nb == 1)):
                        continue            # the aliased operand is an inline rectangle: no array
                    if (na, nb, alias) in ((1, 2, 2), (2, 1, 1)) and n == 3:
                        n2 = 9
                    else:
                        n2 = n
                    js += [j for j in op_case(32, na, nb, alias, n2, full, spare=spare, timeout=1800)
                           if j.name not in [q.name for q in js]]
            for dst in (0, 1, 2, 3):
                js += [j for j in op_case(32, na, nb, 0, 3, full, dst=dst, timeout=1800) if j.name not in [q.name for q in js]]
    for non in (S, I, V):
        for alias in (0, 1, 2):
            js += [j for j in op_case(32, 2, 2, alias, 3, False, non=non, dst=1, timeout=1800) if j.name not in [q.name for q in js]]
    for alias in (0, 1):
        js += op_case(32, 1, 2, alias, 3, True, fail=True, dst=1, timeout=1800)
    js += op_case(32, 2, 2, 2, 3, False, fail=True, timeout=1800)
    js += op_case(16, 2, 2, 1, 3, False, timeout=1800)
    return js


# ---------------------------------------------------------------------------------------------- validate
def interval_orders(n):
    """every weak order of the endpoints of n intervals (y1 < y2) with pairwise different y1, as ranks; intervals listed
    by increasing y1 (n <= 3: brute force)"""
    import itertools
    seen, out = set(), []
    for ranks in itertools.product(range(2 * n), repeat=2 * n):
        used = sorted(set(ranks))
        if used != list(range(len(used))):
            continue
        y1 = ranks[0::2]
        y2 = ranks[1::2]
        if any(a >= b for a, b in zip(y1, y2)):
            continue
        if list(y1) != sorted(set(y1)):
            continue
        if ranks not in seen:
            seen.add(ranks)
            out.append(list(ranks))
    return out


def permute(row, k):
    """k-th rotation / reversal of the boxes of a row (validate must sort any input order)"""
    n = len(row) // 2
    boxes = [row[2 * i:2 * i + 2] for i in range(n)]
    k %= 2 * n
    if k >= n:
        boxes = boxes[::-1]
        k -= n
    boxes = boxes[k:] + boxes[:k]
    return [v for b in boxes for v in b]


# hand-written layouts (sorted by y1; y-staggered columns that validate scatters into several partial regions)
STAGGERED = {
    4: [[0, 10, 1, 11, 2, 12, 3, 13], [0, 4, 1, 5, 4, 8, 5, 9], [0, 2, 1, 3, 2, 4, 3, 5], [0, 1, 1, 2, 2, 3, 3, 4], [0, 5, 1, 3, 3, 4, 2, 6]],
    5: [[0, 10, 1, 11, 2, 4, 3, 13, 4, 6], [0, 10, 1, 11, 2, 12, 3, 13, 4, 14], [0, 2, 1, 3, 2, 4, 3, 5, 4, 6],
        [0, 3, 1, 4, 3, 5, 4, 6, 5, 7], [0, 10, 1, 3, 2, 12, 3, 5, 5, 7]],
}


def validate_rows(n, max_rows):
    if n <= 3:
        base = interval_orders(n)
    else:
        base = STAGGERED[n]
    if n == 2:
        rows = [permute(r, i) for i, r in enumerate(base)] + [permute(r, i + 1) for i, r in enumerate(base)]
    else:
        # >= 3 boxes: input already sorted by y1.  (Unsorted input makes quick_sort_rects compare the pivot with itself,
        # `x1 < x1` on a free x1, which the verifier does not fold: the partition loops become symbolic and the
        # query does not finish.  quick_sort_rects on >= 3 unsorted boxes is therefore NOT covered.)
        rows = [list(r) for r in base]
    total = len(rows)
    rows, _ = sample(rows, max_rows, 77 + n)
    return rows, total


def validate_job(bits, n, rows, total, name, fail=False, same_band=False, timeout=900, part=""):
    d = {"VR_BITS": bits, "VV_N": n, "VV_NLAY": len(rows), "VV_LAYOUTS": ",".join(str(v) for r in rows for v in r)}
    if fail:
        d["VV_FAIL"] = 2 if fail == 2 else 1
    return Job("validate%d.%s.n%d%s%s" % (bits, name, n, ".fail" if fail else "", part), "C05/opv_validate.c", defines=d, kind="bounded",
               bound="exactly %d boxes; %d of %d y layouts%s; unions of step 3 replaced by the contract of pixman_op with a 1- or 2-rectangle result"
                     % (n, len(rows), total, " (all boxes in one band)" if same_band else (" (pairwise different y1, both input orders)" if n == 2 else " (pairwise different y1, input sorted by y1)")),
               functions=["validate", "quick_sort_rects", "pixman_rect_alloc", "pixman_break"],
               unwind=n + 3, cbmc_flags=LEAK + UNWINDSET, timeout=timeout, min_props=8, object_bits=11,
               domain="%s x coordinates, boxes non-empty; %s; ghost point anywhere; %s"
                      % (coord(bits), "boxes share y1,y2: touching, overlapping, separated, in any order" if same_band
                         else "y layouts as small integers (validate only compares y values)",
                         "every single failing allocation, every single failing union, all unions failing" if fail else "nothing fails"),
               assumptions=["pixman_op replaced by its contract (body: op*.* jobs of this module)",
                            "pixman_coalesce replaced by its contract (body: leaf*.coalesce.* jobs of C05)"])


def validate_case(bits, n, rows, total, name, **kw):
    js = []
    for c in range(0, len(rows), ROWS_PER_JOB):
        part = ".p%02d" % (c // ROWS_PER_JOB) if len(rows) > ROWS_PER_JOB else ""
        js.append(validate_job(bits, n, rows[c:c + ROWS_PER_JOB], total, name, part=part, **kw))
    return js


def validate_jobs(tier):
    js = []
    quick = tier == "quick"
    # boxes of ONE band, free x: merge-or-append test of the scatter loop (touching / overlapping / separated, any order)
    js.append(validate_job(32, 2, [[0, 1, 0, 1]], 1, "same_band", same_band=True))
    if not quick:
        js.append(validate_job(16, 2, [[0, 1, 0, 1]], 1, "same_band", same_band=True))
        # (3 boxes of one band: quick_sort_rects' partition loops become symbolic; no result in 16 min -> not included)
    # pairwise different y1: placement of each box (extend a partial region by a new band / start a new region)
    rows, total = validate_rows(2, 10)
    js += validate_case(32, 2, rows, total, "layouts")
    rows, total = validate_rows(3, 1 if quick else 12)
    js += validate_case(32, 3, rows, total, "layouts", timeout=1800)
    # bail path: y-staggered columns (>= 4 partial regions), every failing allocation / union
    js.append(validate_job(32, 5, [permute(STAGGERED[5][0], 2)], len(STAGGERED[5]), "staggered", fail=2, timeout=1800))
    if not quick:
        rows, total = validate_rows(2, 10)
        js += validate_case(32, 2, rows, total, "layouts", fail=True, timeout=1800)
        rows, total = validate_rows(3, 10)
        js += validate_case(32, 3, rows, total, "layouts", fail=True, timeout=1800)
        # measured rows only (rows 2 of STAGGERED[4] and 3, 4 of STAGGERED[5] — chains of vertically touching boxes, many
        # coalescing leaves x failure points — gave no result in 15 min and are not included)
        for i, r in enumerate(STAGGERED[4]):
            if i != 2:
                js.append(validate_job(32, 4, [permute(r, i)], len(STAGGERED[4]), "staggered", fail=True, part=".r%d" % i, timeout=1800))
        for i, r in enumerate(STAGGERED[5]):
            if i in (1, 2):
                js.append(validate_job(32, 5, [permute(r, i)], len(STAGGERED[5]), "staggered", fail=2, part=".r%d" % i, timeout=1800))
        js.append(validate_job(16, 5, [permute(STAGGERED[5][0], 2)], len(STAGGERED[5]), "staggered", fail=2, timeout=3600))
    return js


def lemma_jobs(tier):
    js = []
    for n in ((2, 4) if tier == "quick" else (0, 1, 2, 3, 4, 5)):
        js.append(Job("lemma.canon_linear_equals_spec.n%d" % n, "C05/opv_lemma.c", defines={"VR_BITS": 32, "VL_N": n},
                      kind="proof", functions=[], unwind=n + 2,
                      cbmc_flags=["--unwindset", "harness.0:22,harness.1:22,harness.2:22,harness.3:22,opv_canon_list.0:7,memcmp.0:72"],
                      timeout=900, min_props=1, replayable=True,
                      domain="every list of exactly %d boxes, every int32 coordinate: opv_canon_list (one-pass predicate used by the opv "
                             "harnesses) == sr_canon_list (spec/spec_region.h)" % n))
    return js


def jobs(tier):
    return op_jobs(tier) + validate_jobs(tier) + lemma_jobs(tier)


META_EXTRA = {
    "trusted_base": [
        "harness/C05/opv_rh.h: interception of pixman_op and pixman_coalesce by function-like macros while the unmodified source is #included "
        "(definitions renamed *_real, call sites routed to contract stubs); allocation model: every library allocation is a typed model "
        "block (array of boxes, header in front, capacity OPV_CAP=24), realloc = allocate + copy + free",
        "contract of an overlap procedure as written in harness/C05/opv_op.c (requires: complete, original, readable bands, ytop = max of tops, "
        "ybot = min of bottoms, increasing y; ensures: 0..2 legal boxes of the band appended or FALSE + broken region); the bodies of "
        "pixman_region_{intersect,union,subtract}_o are checked against band-level obligations by the band*.* jobs of C05",
        "contract of pixman_coalesce (opv_rh.h; body: leaf*.coalesce.* jobs of C05) and of pixman_op as validate uses it (opv_validate.c; "
        "body: the op*.* jobs of this module)",
        "order-type argument: pixman_op / validate only compare y coordinates, so one representative (small integers) per relative order of the "
        "band boundaries stands for every y; the enumeration is generated in props/C05_opv.py (order_types, interval_orders)",
        "lemma.canon_linear_equals_spec.*: the one-pass canonical-list predicate of the opv harnesses == sr_canon_list of spec_region.h "
        "(proved for every list of <= 5 boxes; used on lists of up to 20 boxes)",
    ],
    "assumptions": [
        "pixman_op: operands of 1..3 rectangles each; per job a stated number of {band composition x y order type x boxes appended per overlap "
        "call} combinations (all of them only for the smallest sizes in thorough; fixed-seed samples otherwise); x coordinates free",
        "pixman_op: the overlap procedure appends at most 2 boxes per band pair; single allocation failures (pixman_op stops at the first)",
        "validate: 2..5 boxes, non-empty; >= 3 boxes only already sorted by y1 with pairwise different y1 (or 2-3 boxes of one band); the pairwise "
        "unions yield 1 or 2 rectangles (contract stub)",
        "coalescing decisions are enumerated as a concrete decision tree, x-dependent obligations are stated under the guard 'the decisions agree "
        "with the x coordinates'; every x satisfies the guard of exactly one leaf",
    ],
    "not_covered": [
        "UNVERIFIED: pixman_op with free y coordinates (1 x 2 rectangles: symbolic execution 190-320 s, then > 14 GB in the SAT reduction); "
        "pixman_op with two 3-rectangle operands (no result in 13 min) or operands of > 3 rectangles; DOWNSIZE (needs size > 50)",
        "UNVERIFIED: quick_sort_rects on >= 3 unsorted boxes (direct call with 3 free boxes: no result in 280 s; inside validate the pivot's "
        "self-comparison makes the partition loops symbolic)",
        "UNVERIFIED: validate's growth of the region_info array beyond 64 partial regions; PREFIX(_init_rects) end to end with >= 2 boxes "
        "(validate is entered directly with the state init_rects builds)",
        "writes beyond the requested size but inside a model block are not flagged in the CBMC build (native replay uses exact sizes + ASan)",
    ],
}

META = {"level": "proof", "trusted_base": META_EXTRA["trusted_base"], "assumptions": META_EXTRA["assumptions"],
        "not_covered": META_EXTRA["not_covered"]}
