"""C01 — compositing equations: the 8-bit combiners of pixman-combine32.c against the
Render/PDF per-channel spec (spec/spec_un8.h)."""
from vdriver import Job

PD = [("clear", 0), ("src", 1), ("dst", 2), ("over", 3), ("over_reverse", 4), ("in", 5), ("in_reverse", 6), ("out", 7),
      ("out_reverse", 8), ("atop", 9), ("atop_reverse", 10), ("xor", 11), ("add", 12), ("multiply", 13)]
PDF = [("screen", 14), ("overlay", 15), ("darken", 16), ("lighten", 17), ("hard_light", 18), ("difference", 19),
       ("exclusion", 20)]

INV = ("0 <= i && i <= width && "
       "(gk < i ==> SPX_POST(dest[gk], src[gk], VC_MASKGK, __CPROVER_loop_entry(dest[gk]), VC_CH)) && "
       "(gk >= i ==> dest[gk] == __CPROVER_loop_entry(dest[gk])) && "
       "dest[width] == __CPROVER_loop_entry(dest[width])")


def loop_tpl():
    return {"assigns": "i, __CPROVER_object_whole(dest)", "invariants": INV, "decreases": "width - i",
            "vars": ["i", "dest", "src", "mask", "width", "gk=gk"], "headers": ["spec_op.h"]}


def n_loops(fn):
    if fn in ("combine_clear", "combine_dst", "combine_clear_ca"):
        return 0
    if fn == "combine_over_u":
        return 2
    return 1


def fn_name(op, mode):
    if op in ("clear", "dst") and mode != 2:
        return "combine_" + op
    return "combine_%s_%s" % (op, "ca" if mode == 2 else "u")


def combos():
    out = []
    for op, code in PD + PDF:
        for mode in (0, 1, 2):
            if op == "dst" and mode == 2:
                continue  # combine_dst serves both
            out.append((fn_name(op, mode), op, code, mode))
    return out


QUICK_D = {("combine_over_u", 1), ("combine_in_u", 1), ("combine_add_u", 0), ("combine_over_ca", 2),
           ("combine_src_u", 1), ("combine_screen_u", 0)}


def jobs(tier):
    js = [Job("lemmas", "C01/lemmas.c", kind="proof", functions=["MUL_UN8", "DIV_ONE_UN8", "UN8x4_MUL_UN8", "UN8x4_MUL_UN8x4",
                                                                "UN8x4_ADD_UN8x4"],
              domain="all a,b in 2^8; all x,y in 2^32", timeout=300, solver="kissat", min_props=8)]
    js.append(Job("glue.optables", "C01/optables.c", kind="proof",
                  functions=["operator_needs_division", "op_flags", "_pixman_setup_combiner_functions_32"],
                  domain="every operator code", timeout=300, min_props=20))
    # (lead) general_composite_rect itself: pipeline selection, buffer carving, per-row protocol, skip on allocation failure
    js.append(Job("glue.rect.h2", "C01/glue_rect.c", defines={"VG_HEIGHT": 2}, kind="bounded", bound="height <= 2 rows (row loop unrolled)",
                  extra_sources=["harness/C01/glue_link.c"],
                  functions=["general_composite_rect", "pixman_malloc_ab_plus_c", "_pixman_multiply_overflows_int"],
                  unwind=4, cbmc_flags=["--pointer-check", "--bounds-check", "--memory-leak-check", "--slice-formula"], timeout=600, min_props=20,
                  domain="every operator, every flag word of the three images, with/without mask, component alpha, dither, every int32 width "
                         "and request geometry, every allocation-failure pattern; iterators and combiner are recording contract stubs",
                  assumptions=["iterator set-up (_pixman_implementation_iter_init) and combiner lookup replaced by recording contract stubs: "
                               "the iterators' own contracts are C10/C08/C13, the combiners' are the row.* jobs, lookup is C02 delegate.*",
                               "CBMC places the scanline block at offset 0 of its object: the ALIGN() rounding is exercised for an aligned base only"]))
    for op, code in PD[:13]:
        for mode in (0, 1, 2):
            for side in (0, 1):
                if (tier == "quick" and mode == 0) or (op == "dst" and mode == 2):
                    continue
                js.append(Job("glue.opflags.%s.m%d.%s" % (op, mode, "dst" if side else "src"), "C01/opflags.c",
                              defines={"VC_OPA": op.upper(), "VC_FN": fn_name(op, mode), "VC_MODE": mode, "VC_SIDE": side},
                              kind="proof", functions=["op_flags", fn_name(op, mode)],
                              domain="one pixel, every (s,m,d) and every alternative value of the hinted image",
                              timeout=600, min_props=2, unwind=2))
    # ---- float pipeline: factor table / masking / clamp (NOT real-valued accuracy)
    FTAB = {"clear": (0, 0), "src": (1, 0), "dst": (0, 1), "over": (1, 4), "over_reverse": (5, 1), "in": (3, 0),
            "in_reverse": (0, 2), "out": (5, 0), "out_reverse": (0, 4), "atop": (3, 4), "atop_reverse": (5, 2),
            "xor": (5, 4), "add": (1, 1)}
    FASSUME = ["float combiners: inputs restricted to premultiplied values in [0,1] without NaN",
               "float combiners: the contract states the IEEE evaluation of min(1, s*Fa+d*Fb); distance to the real-valued result is NOT decided"]
    for op, (fa, fb) in FTAB.items():
        for mode in (0, 1, 2):
            for ch in (0, 1, 2, 3):
                grid = mode != 0   # masked float queries do not finish on the full domain: 5-point grid, labelled bounded
                if tier == "quick" and (ch in (2, 3) or (mode == 0 and op not in ("add", "src"))):  # full-domain float queries: 15 s (add) .. 6 min (over)
                    continue
                d = {"VC_NAME": op, "VC_FA": fa, "VC_FB": fb, "VC_MODE": mode, "VC_CH": ch}
                if grid:
                    d["VC_GRID"] = 1
                js.append(Job("float.pd%s.%s.m%d.ch%d" % ("grid" if grid else "", op, mode, ch), "C01/float_pd.c", defines=d,
                              kind="bounded" if grid else "proof",
                              bound="every float input is one of {0, 1/4, 1/2, 3/4, 1}" if grid else "",
                              functions=["combine_%s_%s_float" % (op, "ca" if mode == 2 else "u"), "combine_inner", "get_factor"],
                              domain="one pixel, premultiplied (s,m,d) of 12 single-precision floats in [0,1]%s, channel %d" % (" on the 5-point grid" if grid else " (all values)", ch),
                              timeout=1800, min_props=3, unwind=6, assumptions=FASSUME))
    FMASK = ["hsl_hue", "hsl_saturation", "hsl_color", "hsl_luminosity", "over", "add", "multiply", "screen", "color_dodge",
             "soft_light", "disjoint_over", "conjoint_xor", "saturate"]
    for op in FMASK:
        hsl = op.startswith("hsl")
        for ch in (0, 1, 2, 3):
            # HSL blends (min/max/division chains): proving the relation takes ~7 min per channel even on a 3-point
            # grid (finding the counterexample of the defect fixed in a19799c took 1 min) -> thorough tier only
            if tier == "quick" and (ch in (0, 2) or op != "over"):
                continue
            g = 3 if hsl else 1
            js.append(Job("float.maskgrid.%s.ch%d" % (op, ch), "C01/float_mask.c",
                          defines={"VC_FN": "combine_%s_u_float" % op, "VC_CH": ch, "VC_GRID": g}, kind="bounded",
                          bound="every float input is one of {0, 1/2, 1}" if hsl else "every float input is one of {0, 1/4, 1/2, 3/4, 1}",
                          functions=["combine_%s_u_float" % op],
                          domain="one pixel, premultiplied (s, mask alpha, d) on the grid; relational: masked == pre-masked source",
                          timeout=3600, min_props=1, unwind=6, assumptions=FASSUME[:1]))
    for fn, op, code, mode in combos():
        pdf = code >= 14
        # loop-free, full domain, replayable: one pixel, one channel per query (+ one frame query)
        for ch in (0, 1, 2, 3, 4):
            if tier == "quick" and (ch in (0, 2) or (pdf and ch == 1) or
                                    (mode == 2 and ch == 1 and op in ("multiply", "atop", "atop_reverse", "xor"))):
                continue  # PDF colour channels take 5-15 min each, the 3-product CA ones 2-5 min: thorough tier only
            js.append(Job("px.%s.m%d.ch%d" % (fn, mode, ch), "C01/combine_px.c",
                          defines={"VC_FN": fn, "VC_OP": code, "VC_MODE": mode, "VC_CH": ch},
                          kind="proof", functions=[fn],
                          domain="width 1, every (s,m,d) in 2^96, " + ("channel %d" % ch if ch < 4 else "frame: neighbours/src/mask unchanged"),
                          timeout=(3600 if ch < 3 else 900) if pdf else 900, min_props=1,
                          unwind=2 if n_loops(fn) else None,
                          assumptions=(["PDF blend modes: spec stated for premultiplied pixels only (channel <= alpha)"] if pdf else [])))
        # unbounded scanline contract (route D), one channel per query
        chans = (0, 1, 2, 3)
        if tier == "quick":
            if (fn, mode) not in QUICK_D:
                continue
            chans = (3,) if mode == 2 else (1, 3)
        if pdf and tier == "quick":
            chans = (3,)
        for ch in chans:
            nl = n_loops(fn)
            js.append(Job("row.%s.m%d.ch%d" % (fn, mode, ch), "C01/combine_d.c", route="D", enforce=fn,
                          defines={"VC_FN": fn, "VC_OP": code, "VC_MODE": mode, "VC_CH": ch,
                                   "VC_MASKGK": "mask[gk]" if mode else "0u"},
                          loops={fn: [loop_tpl() for _ in range(nl)]} if nl else {},
                          kind="proof", functions=[fn],
                          domain="any width <= 2^20 (loop contract, no unwinding), any pixel values, ghost pixel gk, channel %d; frame: assigns dest[0..width) only" % ch,
                          timeout=1500, solver="kissat", min_props=10))
    return js


META = {
    "level": "proof",
    "trusted_base": ["spec/spec_un8.h: Render Fa/Fb table and PDF blend formulas as written from the property text"],
    "assumptions": [
        "only the 8-bit combiners of pixman-combine32.c are under contract; fetch/store iterators, dithering and pixman_image_composite32 as a whole are surroundings (C10/C02 cover codecs and kernels)",
        "float pipeline (pixman-combine-float.c): real-valued accuracy not decidable with CBMC (no reals); not claimed",
        "scanline width bounded by 2^20 in the contract precondition",
    ],
    "not_covered": ["pixman-combine-float.c accuracy", "disjoint/conjoint/HSL operators (float only)", "general_composite_rect iterator glue"],
}
