"""What MANIFEST.json claims.  A property is in CLAIMS only when bin/check <id> exists and passes on the
unchanged tree; everything else is in NOT_APPLICABLE with the reason (including 'not built yet')."""
HOOK_COMMITS = ["36f4660"]
NOTES = ("Contract-based deductive verification with CBMC 6.11; see DESIGN.md. exit 2 from a check means undecided "
         "(tool failure/timeout/changed loop shape), never a violation.")
CLAIMS = {
    "C01": {
        "text": "Every 8-bit combiner of pixman-combine32.c (13 Porter-Duff/ADD, MULTIPLY and the 7 separable PDF blend modes; unified, "
                "masked and component-alpha) is proved against a per-channel specification written from the Render/PDF equations: "
                "loop-free for every (src,mask,dest) pixel value in 2^96, and as an enforced function contract with loop invariants "
                "for every scanline width up to 2^20 with frame conditions. The rounding rule itself (round-to-nearest of ab/255, "
                "saturating sums) is discharged as lemmas. general_composite_rect itself (pipeline choice narrow/float, the three aligned disjoint "
                "scanline buffers, per-row fetch/fetch/fetch/combine/write-back protocol, skip on allocation failure) is checked against recording "
                "contract stubs of the iterators and combiners. Tests sample pixels; this quantifies over all of them.",
        "note": "Under contract: the combiners and their macros. Not under contract: fetch/store iterators of arbitrary formats (see C10), "
                "pixman_image_composite32 as a whole (its pre-lookup code and box loop: C03), general_composite_rect for more than 2 rows "
                "(row loop unrolled: bounded), float combiners (real-valued accuracy is not decidable "
                "with CBMC: not claimed). PDF blend modes assume premultiplied inputs (channel <= alpha). Width <= 2^20.",
    },
}
CLAIMS.update({
    "C05": {
        "text": "Region set algebra: every shortcut/trivial path of intersect, union, subtract, inverse, intersect_rect, union_rect, copy, reset, "
                "clear, init* (operands of at most one rectangle or empty, every aliasing pattern, 16- and 32-bit, full coordinate domain) is "
                "proved against point membership at a ghost point, with the decision *when* the shortcut may be left (pixman_op precondition) "
                "as an obligation; pixman_coalesce, pixman_set_extents, init_rects(<=1) and the 16/32 conversions have their own contracts. pixman_op and "
                "validate are checked modularly: the band function, pixman_coalesce and the pairwise unions are contract stubs that check "
                "their preconditions (bands handed over are the operands' original, readable rectangles; one call per overlapping band pair; "
                "ytop/ybot), so the sweep, the old_data aliasing logic, the result shape and the bail paths are decided on the real code.",
        "note": "Bounded stand-ins (never counted as proved): operands with exactly 2 rectangles, pixman_op with the real intersect band function "
                "(<=2 rects, coordinates 0..6), coalesce/set_extents with k>=2. pixman_op / validate jobs: <= 3x3 rectangles / <= 5 boxes, y coordinates enumerated as order types "
                "(sampled layouts), x free. UNVERIFIED: pixman_op together with the REAL union/subtract band functions, quick_sort_rects on >= 3 "
                "unsorted boxes, init_rects end to end with >= 2 boxes. "
                "Known finding: signed overflow in init_rects(count==1) for boxes wider than INT32_MAX.",
    },
    "C06": {
        "text": "Canonical form (every clause of the property: non-empty rects, band order, shared vertical extent, gaps, merged adjacent bands, "
                "tight extents, single rect inline, empty = empty_data) is a conjunct of every C05 postcondition; equal() <=> same point set "
                "incl. 'all empty regions are equal' (defect found and repaired by a fix: commit); selfcheck accepts every canonical region.",
        "note": "Same bounds as C05 (pixman_op / validate result shape: opv jobs; bitmap import: image_e2e jobs). Uniqueness of the canonical form (same points => same list) is argued, not machine-checked. Known findings: "
                "intersect_rect / inverse with an empty rectangle argument return a non-canonical 'single rectangle' holding no points.",
    },
    "C09": {
        "text": "The opacity-driven operator reduction is proved on the real code: optimize_operator selects exactly the table cell the flags say "
                "(every operator, every flag word), and for each Porter-Duff/ADD operator and each opacity cell the real combiner of the "
                "original operator and the real combiner of the reduced operator give the same pixel for every (s,m,d) with the cell's alphas "
                "forced to 255 (relational, no spec).",
        "note": "Pixel-level, one pixel at a time (C01's scanline contracts lift it to any width). The opacity *flags* themselves "
                "(compute_image_info: IS_OPAQUE only if every contributing sample has alpha 1) and the promotion logic in "
                "pixman_image_composite32 are covered by the C14/C03 helpers' jobs when present; SATURATE only by cell selection.",
    },
    "C11": {
        "text": "Fixed-point transforms: split-form exactness of the 31.16 point transforms (affine, 3d, projective parts), the narrowing/FALSE "
                "logic of pixman_transform_point/_3d, multiply range logic and values, init/scale/rotate/translate structure, bounds, the "
                "predicates and the fixed<->float conversions are under contract over the full input domain; 'never aborts' is the reachability "
                "of the internal asserts for every matrix.",
        "note": "Bounded: distributivity lemma and quotient correctness of the 128-bit dividers at reduced operand width; f_transform_invert only "
                "for zero rows. Not decided: projective branch end to end, invert accuracy (real analysis). 12 jobs are genuine defects listed in "
                "known-findings.txt (abort for w=-2^(16+k), wrapped values from scale/rotate/translate/bounds/within_epsilon, NaN conversion, "
                "per-term rounding in multiply).",
    },
    "C16": {
        "category": "other",
        "text": "Ownership/frame premise of race freedom only: the set of objects with static storage duration that are neither thread-local nor "
                "const, over all 33 library translation units as compiled from the current tree, and the functions that assign them, equals a "
                "reviewed list whose writers run only from the library constructor (plus an error-path counter and a set-up API); the "
                "fast-path cache carries the thread_local flag. A new shared writable object, a new writer, or a lost TLS flag fails a named obligation. "
                "Plus two sequential frame contracts behind 'sources shared read-only after their first use': _pixman_image_validate leaves a "
                "clean image untouched and every image clean (C14's validate.* jobs), and computing the composite region writes only the "
                "caller's region, never an image's clip region (multi-rectangle branch, contract stubs for translate/intersect).",
        "note": "Sequential contracts cannot decide schedules: determinism under interleaving is NOT decided. Writes through pointers are not tracked. "
                "The allow-list in props/C16.py is trusted.",
        "technique": "contract-based deductive verification of the sequential frame premise only: CBMC 6.11 contract harnesses (validate leaves clean images "
                     "untouched, composite-region computation writes only the caller's region) + a frame fact read off the goto-cc symbol table and "
                     "goto functions; no schedule exploration",
    },
    "C17": {
        "text": "Glyph cache as a map under any history: with the table shrunk by the guarded hook to 4 (quick) / 8 (thorough) slots and its whole "
                "contents symbolic under the data-structure invariant cache_wf (any reachable or unreachable history, any keys, any hash), "
                "lookup == view and terminates, insert/remove/thaw/clear/freeze/create/destroy preserve cache_wf and change the view exactly "
                "by the key concerned, thaw evicts only above high water and LRU-first, a full cache refuses insertion. The non-termination "
                "defect (table could fill completely) was found by 'insert keeps a NULL slot' and repaired by a fix: commit.",
        "note": "Bounded in table size (4/8 slots; generalisation to 32768 by parametricity is stated, not proved); image create/composite/unref "
                "are recording stubs. box32_intersect and the pixman_composite_glyphs frame (mask format/size, component alpha iff alpha+colour, one "
                "composite, one release, allocation failure draws nothing) are full-domain proofs. Drawing half: per-glyph geometry of "
                "composite_glyphs_no_mask / add_glyphs / composite_glyphs (drawn rectangle = glyph box ∩ clip box, mask and source origins, the forced "
                "COVER promise, lookup memo) with 1-2 glyphs and recording stubs for the lookup and the routines (bounded; pixels rest on C01/C02).",
    },
})
CLAIMS.update({
    "C07": {
        "text": "Region queries and translation against the point-set model: contains_point (+ find_box_for_y) == membership and returns a "
                "member rectangle, contains_rectangle IN/OUT/PART by closed-form intervals and ghost points, not_empty/n_rects/extents/"
                "rectangles, translate (in-range branch: every rectangle shifted exactly; 16-bit clamp/discard branches; every (dx,dy)); "
                "proof level for empty/single-rectangle regions over the full coordinate domain in both instantiations.",
        "note": "Bounded: 2..4 rectangles (3 for translate), exact PART classification on coordinates in [-8,8], init_from_image decomposed: scan with a recording stub for bitmap_addrect at widths 33..96 (all bits symbolic), "
                "bitmap_addrect against that contract, end to end on images up to 8x3 (bounded). No unbounded loop contracts. 5 genuine defects of translate are known "
                "findings (int overflow before widening in the 32-bit instantiation, empty rectangle kept at the range border, all-discarded "
                "case reads box[-1], bands left unmerged).",
    },
    "C10": {
        "text": "For all 38 MAKE_ACCESSORS formats, against a literal per-format field table: fetch_pixel == bit-replicated widening of the raw "
                "bits for every memory content and x (loop-free proof; indexed formats for every palette), store keeps the most significant "
                "bits and changes no bit outside the addressed pixels (ghost bit anywhere in the image memory), read/write round trips, "
                "fetch_scanline / store_scanline of every format as ENFORCED CONTRACTS WITH LOOP INVARIANTS for any width and any x (fetch == widened raw "
                "pixel; store == narrowed value and no bit outside the addressed pixels changes; symbolic palette for indexed formats), "
                "scanline reader == single-pixel reader, the accessor build goes through the callbacks only and behaves identically, "
                "setup_accessors installs exactly the table row of the format, unorm/float converters round-trip and clamp.",
        "note": "Generic float glue (store/fetch_scanline_generic_float, single-pixel float readers) against recording stubs and the converters' "
                "contracts, widths to 600. The unrolled width <=4 scanline jobs remain for negative rowstride (bounded); route-D scanline contracts: rows of "
                "<= 2^20 bytes, top-down, row 0 (any row for 6 formats, accessor build for 8). "
                "yuy2, yv12, sRGB: only 'scanline reader == single-pixel reader' (relational, bounded); 10-bpc and float formats, dithering, "
                "big-endian layout: not covered.",
    },
    "C15": {
        "text": "Allocation failure is an explicit 32-bit input (bit k fails the k-th allocation of the call; cbmc --no-malloc-may-fail, "
                "--memory-leak-check): pixman_rect_alloc (create / grow: failure releases what the region owned), region copy/init_rects leave the designated broken region, return FALSE and leak nothing; a broken "
                "operand propagates through union/intersect/inverse/subtract/copy/union_rect and fini accepts it; plus every image-setter, "
                "glyph-cache and filter job of C20/C14/C17/C18 that runs under a symbolic failure mask.",
        "note": "Only the functions named in the evidence are checked under failure; pixman_op / validate bail paths by the opv jobs (bounded); general_composite_rect's scanline buffer (skip, nothing fetched or stored, no leak) is covered by C01 glue.rect; the glyph mask "
                "and trapezoid temporary image by C17/C12 jobs run here; other silent-skip sites are NOT covered. Known finding: subtract with a broken "
                "minuend returns TRUE.",
    },
    "C19": {
        "text": "fill: pixman_fill1/8/16/32 and sse2_fill set exactly the rectangle (ghost slot anywhere in the stride incl. padding and "
                "neighbouring bits; a second set of jobs with the heap block exactly the described buffer so that even a same-value access "
                "outside it fails), unsupported depth => FALSE and nothing written (proof); blt/fill delegation down the implementation "
                "chain; color_to_pixel == store of the colour for the 12 accepted formats and FALSE otherwise (proof, all colours); "
                "fill_boxes/fill_rectangles: operator reduction, route selection, and the rectangles handed to pixman_fill are exactly "
                "boxes ∩ clip ∩ image bounds. Three defects found here were repaired by fix: commits (no clipping to the image, direct "
                "fill with alpha map/accessors, UB shift in color_to_uint32).",
        "note": "Fill/blt row and line loops are unrolled (width <= 5..96 pixels, height <= 3): bounded; SSE2 with store/load intrinsics "
                "modelled as 16-byte accesses with an alignment obligation (trusted); MMX not modelled; fill_boxes with <=1 box and <=1 clip "
                "rectangle against a one-rectangle region model (trusted, justified by C05).",
    },
})
CLAIMS.update({
    "C14": {
        "text": "No stale derived state: for every setter of pixman-image.c, on an image with every field symbolic, '(all property fields "
                "unchanged) or dirty' and 'the setter writes no derived field (flags, extended_format_code)'; _pixman_image_validate leaves the "
                "image and its alpha map not dirty and calls the property_changed hook exactly once after the new flags; non-interference: "
                "two images equal in every property but with arbitrary old flags/format code/dirty/refcounts get equal flags and code from "
                "compute_image_info, and equal gradient sentinels.",
        "note": "Images are hand-built (constructors not covered); gradient jobs cap at 3 stops (bounded); bits_image_property_changed / "
                "setup_accessors non-interference is covered by C10's dispatch jobs only; the enumeration of derived state (flags, format code, "
                "sentinels, accessors, TLS cache) is assumed complete; compute_image_info runs with --no-signed-overflow-check "
                "((t00+t01) may overflow for arbitrary matrices).",
    },
    "C20": {
        "text": "Image lifetime on images with every field symbolic and an ownership ghost record: unref returns TRUE exactly when the last "
                "reference goes, then the destroy callback ran exactly once before any free, every owned block (transform, filter params, "
                "clip data, stops, free_me) is freed exactly once (free accounting + leak check) and the alpha map loses exactly one reference "
                "and one use count; otherwise only ref_count changes. set_alpha_map exchanges references and use counts, refuses chains in "
                "both directions and the image itself; setters that replace owned buffers free the old block exactly once and keep it on "
                "allocation failure. Two defects found here were repaired by fix: commits.",
        "note": "Bounded: set_filter <= 8 words, clip regions <= 3 boxes / 1 rectangle. Constructors and glyph-cache frees are not in this "
                "check (C17 covers free_glyph). Histories of any length follow from the inductive invariant img_wf, which is argued.",
    },
})
CLAIMS.update({
    "C02": {
        "text": "'All implementations bit-identical' is decided as 'each implementation meets the same C01 per-channel specification': the SSE2 "
                "combiners (fetched from the table built by the real _pixman_implementation_create_sse2, so mask constants and operator "
                "bindings are included) are proved per pixel (scalar head/tail kernels) and per 4-pixel vector body against the spec for "
                "every pixel value; dispatch: lookup_composite returns the first matching entry in chain order under a symbolic fast-path "
                "cache invariant, combiner/iter/blt/fill delegation, PIXMAN_DISABLE token matching and 'wholeops'.",
        "note": "Trusted: 21 C models of __builtin_ia32_* (cross-checked natively against the real instructions on 2*10^5 vectors each). "
                "Bounded: dispatch on stub chains (3 implementations x 3 entries), SSE2 row structure for fixed alignment/width cases, C fast "
                "paths at width 3 with the ghost pixel fixed per query. Table status (evidence/C02_tables.json, from scheduled jobs only): 82 of "
                "117 SSE2 entries and 89 of 108 C entries have at least a bounded pixel job; NOT covered: the scaled nearest/bilinear SSE2 entries "
                "except through the main-loop jobs borrowed from C08 (scl.*, pad_bounds) and the scanline jobs sscl.* where present, "
                "fast_composite_scaled_nearest, MMX, SSSE3 fetcher, cpuid detection.",
    },
    "C03": {
        "text": "_pixman_compute_composite_region32 (+ clip_general_image, clip_source_image, real pixman-region32.c) is proved for every flag "
                "combination with single-rectangle clips: TRUE => ghost point in region <=> in request, destination bounds, destination clip, "
                "alpha-map box, enabled source and mask clips (translated); FALSE <=> that set is empty. The per-box dispatch loop of "
                "pixman_image_composite32 hands each routine exactly the box with correctly translated source/mask origins; the pixbuf "
                "special case, IS_OPAQUE promotion and mask elision conditions are proved on the pre-lookup code. Clip regions carried by "
                "the alpha map of the source / mask (positioned by the owner's alpha origin), and the multi-rectangle branch of "
                "clip_general_image as a call protocol over contract stubs of translate/intersect (every enabled clip intersected once in its "
                "own coordinate system, region back in destination space). The trapezoid row clamps (C12 trap.*) are run here too.",
        "note": "Coordinates within +-2^29; multi-rectangle clips only through the call protocol (what translate/intersect compute is C05/C07; pixman_op asserted unreachable "
                "elsewhere); the clip of a DESTINATION alpha map is out of scope (not in the statement); alpha-map clip jobs within +-2^27; "
                "that each routine writes only inside its box is covered only for routines under contract in C01/C02/C10/C19. "
                "Known finding: pixbuf path ignores differing rowstride/size. One defect (zero-size alpha map) repaired via the "
                "intersect_rect fix: commit.",
    },
    "C04": {
        "text": "Memory-safety obligations (bounds, pointer) are on in every job of every property. C04-specific: analyze_extent / "
                "compute_transformed_extents: COVER_CLIP_NEAREST/BILINEAR promise the sampled taps of the four transformed corners inside the "
                "image for every matrix (transform stub with ghost results) and the 16.16 fit of the expanded extents; identity case per "
                "ghost pixel; pixman_malloc_ab_plus_c and the overflow predicates against 64/128-bit arithmetic. The macro-generated scaled NEAREST / "
                "BILINEAR main loops of pixman-inlines.h (real macros instantiated with a contract stub as scanline function; COVER, NONE, "
                "PAD, NORMAL): every address a scanline function is told to read lies in the source row or the loop's own pad buffers, the "
                "destination span inside the box. Borrowed: trapezoid row clamps (C12 trap.*), fast-path separable-convolution bounds (C08).",
        "note": "Affine convexity (corners inside => every pixel centre inside) is not machine-checked; create_bits stride arithmetic and "
                "_pixman_multiply_overflows_size are unverified (64-bit division does not finish); pixman_malloc_ab/abc only in the thorough tier (10-15 min each); "
                "scaled main loops: one x scale per job, height <= 2, no mask variants, the real scanline functions against the stub "
                "contract only where C02's sscl.* jobs exist (bounded).",
    },
    "C08": {
        "text": "Sampling arithmetic written from rounding.txt: repeat() for NONE/PAD (all inputs) and NORMAL range+termination (loop "
                "contracts), nearest = floor(x - e) then the repeat map and bilinear neighbours/weights from x - 1/2 (argument level, all "
                "positions), 7-bit bilinear weights, convolution tap alignment/rounding/clamping of the signed sum, affine stepping and the "
                "signed projective quotient; wide fetchers never skip a pixel with a non-zero mask; the specialised C fast-path fetchers "
                "(nearest/bilinear/separable-convolution affine for every repeat mode x format instance and their fast_iters[] table "
                "bindings, r5g6b5 fetch/write-back, bilinear cover iterator) against the same reference on a symbolic 4x3 source; "
                "pad_repeat_get_scanline_bounds; the scaled NEAREST / BILINEAR main-loop macros (a ghost pixel of the box is composited exactly "
                "once from the documented sample of the repeated image, weights included); transform-class flags only for matrices of that class. Defects found here were repaired "
                "by fix: commits (unsigned convolution totals, unsigned projective division, wide mask test, two signed-shift UBs).",
        "note": "Bounded: NORMAL congruence |c| <= 4 size, REFLECT/MOD per fixed size, bilinear blend per fixed weight pair, 1x1 kernels only, "
                "scanline width <= 3, projective quotient at reduced operand width. repeat() and bilinear_interpolation are uninterpreted "
                "stand-ins inside the fetch jobs. Scaled main loops: one x scale per job (bounded), scanline functions as contract stubs. SSSE3 fetchers, float fetchers: not covered. Known finding: left "
                "shift of a negative value in the separable-convolution phase rounding.",
    },
    "C12": {
        "text": "Sample grid: pixman_sample_ceil_y/floor_y and RENDER_SAMPLES_X for n in {1,4,8} over all 2^32 inputs against a literal grid; "
                "per-row coverage of rasterize_edges_1/4/8 (both accessor builds): new value == saturate(old + number of grid columns in "
                "[lx,rx)) for every edge position, neighbours and padding unchanged; row-level tiling lemma; edge stepping invariants; "
                "pixman_rasterize_trapezoid / pixman_add_traps row range, clamps and walker positions with the rasteriser replaced by a "
                "recording stub; pixman_edge_init as a function of the line (abscissa at the first sample row rounded down, forward and "
                "backward stepping; reduced operand width).",
        "note": "Row jobs bounded in image width (96/8/8 pixels) and one sample row; the a8 deferred long-span fill across sample rows by 13 "
                "scenario jobs (pixel indices of the span ends fixed per job, sub-pixel parts symbolic; bounded); edge "
                "conservation at reduced operand width; whole-call additivity and offset commutation are derived, not checked. The x grid "
                "phase is the one the code implements (X_FRAC_FIRST - 2e). 7 genuine defects at extreme coordinates / in pixman_edge_step "
                "are known findings.",
    },
    "C13": {
        "text": "Integer/safety half only: gradient_walker_reset stop search stays inside the n+2 sentinel array and brackets the folded "
                "position for every repeat mode; gradient_property_changed sentinels equal a literal table; _pixman_init_gradient allocation "
                "size/failure/no leak; linear_get_scanline terminates and stays in bounds for coincident points. Geometry/interpolation on input "
                "grids (bounded): the gradient walkers leave the half-open neighbouring stop pair around the folded parameter cached for any "
                "previous state and return the premultiplied linear interpolation within one step; linear_get_scanline hands the walker the "
                "projection of the transformed pixel centre onto p1-p2 (affine with w != 1 and projective included); "
                "linear_gradient_is_horizontal only if the parameter is row independent; radial_write_color's t solves the two-circle "
                "equation and is the larger admissible root (a == 0 branch included).",
        "note": "Bounded: <= 4 stops, one fixed degenerate linear case, width <= 2; every geometry/colour job is on a finite input grid with <= 3 "
                "stops and a stated tolerance (none is a proof). Real-valued accuracy for all inputs, radial gradients under a transform, "
                "conical gradients (atan2 has no model), the _wide scanline variants: not decided. Known findings: sentinel arithmetic overflows for absurd stop positions.",
    },
    "C18": {
        "text": "Separable-convolution blocks: n_values == 4 + w*2^bx + h*2^by, exactly one allocation of that size, header decodes to the "
                "table shape, x table at params+4 and y table directly after it ending the block, for all 8x8 kernel pairs, every positive "
                "scale and 0..8 subsample bits; pixman_image_set_filter accepts exactly consistent blocks; create_1d_filter writes only "
                "inside its table and every phase sums to exactly 65536.",
        "note": "create_1d_filter: integral() is a stub (no exp/sin model) and each floor() step an arbitrary integer within the range |c| <= 8 "
                "gives (assumed); tables <= 6 taps x 4 phases (bounded). Kernel values / Simpson accuracy not decidable. One defect "
                "(width 0 write past the block) repaired; known findings: total == 0 (NaN), width >= 32768 header wrap.",
    },
})
_NOT_BUILT = "check not built yet in this session (planned in DESIGN.md §5); not claimed until bin/check passes on the unchanged tree"
NOT_APPLICABLE = {}
