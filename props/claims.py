"""What MANIFEST.json claims.  A property is in CLAIMS only when bin/check <id> exists and passes on the
unchanged tree; everything else is in NOT_APPLICABLE with the reason (including 'not built yet')."""
HOOK_COMMITS = []
NOTES = ("Contract-based deductive verification with CBMC 6.11; see DESIGN.md. exit 2 from a check means undecided "
         "(tool failure/timeout/changed loop shape), never a violation.")
CLAIMS = {
    "C01": {
        "text": "Every 8-bit combiner of pixman-combine32.c (13 Porter-Duff/ADD, MULTIPLY and the 7 separable PDF blend modes; unified, "
                "masked and component-alpha) is proved against a per-channel specification written from the Render/PDF equations: "
                "loop-free for every (src,mask,dest) pixel value in 2^96, and as an enforced function contract with loop invariants "
                "for every scanline width up to 2^20 with frame conditions. The rounding rule itself (round-to-nearest of ab/255, "
                "saturating sums) is discharged as lemmas. Tests sample pixels; this quantifies over all of them.",
        "note": "Under contract: the combiners and their macros. Not under contract: fetch/store iterators of arbitrary formats (see C10), "
                "general_composite_rect glue, pixman_image_composite32 as a whole, float combiners (real-valued accuracy is not decidable "
                "with CBMC: not claimed). PDF blend modes assume premultiplied inputs (channel <= alpha). Width <= 2^20.",
    },
}
_NOT_BUILT = "check not built yet in this session (planned in DESIGN.md §5); not claimed until bin/check passes on the unchanged tree"
NOT_APPLICABLE = {p: _NOT_BUILT for p in ["C02", "C03", "C04", "C05", "C06", "C07", "C08", "C09", "C10", "C11", "C12", "C13", "C14",
                                           "C15", "C16", "C17", "C18", "C19", "C20"]}
