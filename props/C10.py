"""C10 — pixel formats: exact codec, bit-replicated widening, store frame, scanline == single pixel,
accessor build (read_func/write_func) == direct build, dispatch by format code.

The harness list is generated from FORMATS below and cross-checked on every run against the
`accessors[]` table in the pixman-access.c of the tree under check (source scan): a format present
there and absent here gives a job that cannot be built (=> UNDECIDED, exit 2), never a silent pass.
"""
import os, re
from vdriver import Job, REPO, ext_jobs, ext_meta

# name: (bpp, kind)   kind: rgb = direct colour/alpha fields, color/gray = palette index
FORMATS = [
    ("a8r8g8b8", 32, "rgb"), ("x8r8g8b8", 32, "rgb"), ("a8b8g8r8", 32, "rgb"), ("x8b8g8r8", 32, "rgb"),
    ("b8g8r8a8", 32, "rgb"), ("b8g8r8x8", 32, "rgb"), ("r8g8b8a8", 32, "rgb"), ("r8g8b8x8", 32, "rgb"),
    ("x14r6g6b6", 32, "rgb"),
    ("r8g8b8", 24, "rgb"), ("b8g8r8", 24, "rgb"),
    ("r5g6b5", 16, "rgb"), ("b5g6r5", 16, "rgb"),
    ("a1r5g5b5", 16, "rgb"), ("x1r5g5b5", 16, "rgb"), ("a1b5g5r5", 16, "rgb"), ("x1b5g5r5", 16, "rgb"),
    ("a4r4g4b4", 16, "rgb"), ("x4r4g4b4", 16, "rgb"), ("a4b4g4r4", 16, "rgb"), ("x4b4g4r4", 16, "rgb"),
    ("a8", 8, "rgb"), ("r3g3b2", 8, "rgb"), ("b2g3r3", 8, "rgb"), ("a2r2g2b2", 8, "rgb"), ("a2b2g2r2", 8, "rgb"),
    ("c8", 8, "color"), ("g8", 8, "gray"), ("x4a4", 8, "rgb"),
    ("a4", 4, "rgb"), ("r1g2b1", 4, "rgb"), ("b1g2r1", 4, "rgb"), ("a1r1g1b1", 4, "rgb"), ("a1b1g1r1", 4, "rgb"),
    ("c4", 4, "color"), ("g4", 4, "gray"),
    ("a1", 1, "rgb"), ("g1", 1, "gray"),
]
# rows of accessors[] that are the same format code and the same functions as a covered format
ALIASES = {"x4c4": "c8", "x4g4": "g8"}
# rows of accessors[] knowingly NOT covered by a codec obligation (listed in META.not_covered)
NOT_COVERED = ["a8r8g8b8_sRGB", "rgba_float", "rgb_float", "a2r10g10b10", "x2r10g10b10", "a2b10g10r10",
               "x2b10g10r10", "yuy2", "yv12"]

# pixels per row of the test image: at least two 32-bit words of pixels for every bpp
NPIX = {32: 8, 24: 8, 16: 8, 8: 8, 4: 16, 1: 64}
WMAX = {"quick": 4, "thorough": 8}  # scanline width cap of the unrolled scanline jobs


def scan_accessors_table():
    """format names of the rows of the real accessors[] table (source text of the tree under check)"""
    path = os.path.join(REPO, "pixman", "pixman-access.c")
    try:
        text = open(path).read()
    except OSError:
        return None, "cannot read " + path
    m = re.search(r"static\s+const\s+format_info_t\s+accessors\s*\[\s*\]\s*=\s*\{(.*?)\n\};", text, re.S)
    if not m:
        return None, "accessors[] table not found in pixman-access.c (renamed?)"
    body = re.sub(r"/\*.*?\*/", "", m.group(1), flags=re.S)
    names = re.findall(r"FORMAT_INFO\s*\(\s*(\w+)\s*\)", body)
    names += [n for n in re.findall(r"\{\s*PIXMAN_(\w+)\s*[,}]", body) if n != "null"]
    made = re.findall(r"^MAKE_ACCESSORS\s*\(\s*(\w+)\s*\)", text, re.M)
    return (names, made), ""


def table_jobs():
    """exit-2 sentinels: a job that cannot build for every discrepancy between the real table and FORMATS"""
    got, err = scan_accessors_table()
    known = {f for f, _, _ in FORMATS} | set(ALIASES) | set(NOT_COVERED)
    problems = []
    if got is None:
        problems.append(("table_unreadable", err))
    else:
        names, made = got
        for n in names:
            if n not in known:
                problems.append(("unlisted_format_" + n, "format %s is in accessors[] but not in props/C10.py FORMATS" % n))
        for n in made:
            if n not in known:
                problems.append(("unlisted_MAKE_ACCESSORS_" + n, "MAKE_ACCESSORS(%s) exists but %s is not in props/C10.py FORMATS" % (n, n)))
        for f, _, _ in FORMATS:
            if f not in names:
                problems.append(("format_gone_" + f, "format %s of props/C10.py is no longer a row of accessors[]" % f))
    return [Job("table." + tag, "C10/table_mismatch.c", defines={"VF_TABLE_PROBLEM": '"%s"' % msg.replace('"', "'")},
                kind="proof", note=msg, timeout=60) for tag, msg in problems]


# one representative per bpp / layout class: what the quick tier runs in the accessor build
QUICK_ACC = {"a8r8g8b8", "b8g8r8x8", "r8g8b8", "r5g6b5", "a1b5g5r5", "a2r2g2b2", "c8", "a4", "b1g2r1", "a1", "g1"}
QUICK_ACC_SCAN = {"a8r8g8b8", "r8g8b8", "r5g6b5", "a4", "a1"}   # accessor-build scanline jobs of the quick tier
ASSUME_ROW = "image of 2 rows x %d pixels (+1 padding word per row); the accessed pixels lie inside the row (x + width <= image width), as bits_image callers guarantee"
ASSUME_PAL = ("indexed store: palette.ent[] fixed to the literal pseudo-random table harness/C10/palette_fixed.h "
              "(a symbolic 32 KB table does not get through the SAT back end); the read side (rgba[]) is fully symbolic")


def fmt_jobs(f, bpp, kind, acc, tier):
    js = []
    sfx = ".acc" if acc else ""
    src = "pixman-access-accessors.c (READ/WRITE through read_func/write_func)" if acc else "pixman-access.c"
    base = {"VF": f, "VF_NPIX": NPIX[bpp]}
    if acc:
        base["VF_ACC"] = 1
    idx = kind != "rgb"
    row = ASSUME_ROW % NPIX[bpp]
    dom = "every memory content, every x in the %d-pixel row (all positions inside a 32-bit word), both rows, top-down and bottom-up rowstride%s; %s" % (
        NPIX[bpp], "; every palette" if idx else "", src)
    wmax = WMAX.get(tier, 8)
    common = ["fetch_and_convert_pixel", "convert_and_store_pixel", "convert_pixel", "convert_channel", "get_shifts", "unorm_to_unorm"]
    js.append(Job("fetch_pixel.%s%s" % (f, sfx), "C10/fetch_pixel.c", defines=base, kind="proof",
                  functions=["fetch_pixel_" + f] + common, domain=dom, timeout=400, min_props=3, assumptions=[row]))
    js.append(Job("fetch_scanline.%s%s" % (f, sfx), "C10/fetch_scanline.c", defines=dict(base, VF_WMAX=wmax), unwind=wmax + 1,
                  kind="bounded", bound="scanline width <= %d (row loop unrolled)" % wmax,
                  functions=["fetch_scanline_" + f], domain=dom + "; ghost pixel index k < width", timeout=900, min_props=5,
                  assumptions=[row]))
    for mode, tag in ((0, "value"), (1, "frame")):
        d = dict(base, VF_MODE=mode)
        w = wmax
        asm = [row]
        if idx:
            d["VF_PAL_FIXED"] = 1
            w = 1 if mode == 0 else 2
            asm.append(ASSUME_PAL)
        d["VF_WMAX"] = w
        js.append(Job("store_%s.%s%s" % (tag, f, sfx), "C10/store_scanline.c", defines=d, unwind=w + 1,
                      kind="bounded", bound="scanline width <= %d (row loop unrolled)" % w + ("; fixed palette" if idx else ""),
                      functions=["store_scanline_" + f],
                      domain=dom + ("; ghost pixel index k < width, every a8r8g8b8 value" if mode == 0 else
                                    "; ghost bit anywhere in the image memory (both rows and padding)"),
                      timeout=2400 if idx else 900, min_props=3, assumptions=asm))
    if not idx:
        for mode, tag in ((0, "fetch_store"), (1, "store_fetch")):
            js.append(Job("roundtrip_%s.%s%s" % (tag, f, sfx), "C10/roundtrip.c", defines=dict(base, VF_MODE=mode), unwind=2,
                          kind="proof", functions=["store_scanline_" + f, "fetch_pixel_" + f],
                          domain=dom + ("; every a8r8g8b8 value v" if mode == 0 else "; every raw pixel"), timeout=400, min_props=3,
                          assumptions=[row]))
    return js


def misc_jobs(tier):
    js = []
    js.append(Job("lemma.widen_narrow_per_width", "C10/lemmas.c", defines={"VF_LEMMA": 0}, kind="proof",
                  functions=["spec: SF_WIDEN/SF_NARROW"],
                  domain="every width 1..8, every pair of field values: WIDEN(0)=0, WIDEN(max)=0xff, (strictly) monotone, NARROW(WIDEN(v))=v, WIDEN = bit replication (bit i of result = bit i mod w of v)",
                  timeout=300, min_props=8))
    for f, bpp, kind in FORMATS:
        js.append(Job("table.%s" % f, "C10/lemmas.c", defines={"VF_LEMMA": 1, "VF": f}, kind="proof",
                      functions=["spec table row vs PIXMAN_" + f],
                      domain="constants: PIXMAN_%s announces the bpp / field widths / kind of the literal table; fields disjoint and inside the pixel" % f,
                      timeout=120, min_props=9))
        if kind == "rgb":
            js.append(Job("lemma.roundtrip.%s" % f, "C10/lemmas.c", defines={"VF_LEMMA": 2, "VF": f}, kind="proof",
                          functions=["spec: SF_WIDEN_PIX/SF_NARROW_PIX of " + f],
                          domain="every raw pixel: NARROW(WIDEN(p)) == p on defined bits; absent alpha reads 0xff, absent colour 0",
                          timeout=120, min_props=4))
    fm = "".join("X(%s)" % f for f, _, _ in FORMATS)
    ntab = len(FORMATS) + len(ALIASES) + len(NOT_COVERED) + 4
    for acc in (0, 1):
        d = {"VF_PART": 0, "VF_FORMATS": fm}
        if acc:
            d["VF_ACC"] = 1
        js.append(Job("dispatch.table%s" % (".acc" if acc else ""), "C10/dispatch.c", defines=d, unwind=ntab, kind="proof",
                      functions=["setup_accessors", "_pixman_bits_image_setup_accessors_accessors" if acc else "_pixman_bits_image_setup_accessors"],
                      domain="each of the %d covered format codes: the installed fetch_scanline_32/fetch_pixel_32/store_scanline_32 are the functions of that format, float paths the generic ones (real table walked, loop unrolled to its end marker)" % len(FORMATS),
                      timeout=600, min_props=4 * len(FORMATS)))
    js.append(Job("dispatch.callbacks", "C10/dispatch.c", defines={"VF_PART": 1}, unwind=ntab, kind="proof",
                  functions=["_pixman_bits_image_setup_accessors", "setup_accessors"],
                  domain="read_func and/or write_func set => the accessor build's entry point is taken and the direct table installs nothing; unknown format code installs nothing",
                  timeout=300, min_props=3))
    js.append(Job("utils.unorm_to_unorm", "C10/utils.c", defines={"VF_UT": 0}, kind="proof", functions=["unorm_to_unorm"],
                  domain="every 32-bit value, every from,to in 1..16: narrowing keeps the top bits, widening is bit replication", timeout=600, min_props=4))
    # 16 is left out: no 16-bit unorm pixel format exists; the float round trip at 16 bits is NOT exact (u = 65533), see the report
    for nb in ((8,) if tier == "quick" else (1, 2, 4, 5, 6, 8, 10)):
        js.append(Job("utils.float_roundtrip.n%d" % nb, "C10/utils.c", defines={"VF_UT": 1, "VF_NB": nb}, kind="proof",
                      functions=["float_to_unorm", "unorm_to_float", "pixman_float_to_unorm", "pixman_unorm_to_float"],
                      domain="every %d-bit u: float_to_unorm(unorm_to_float(u)) == u, 0 -> 0.0, max -> 1.0 (IEEE single, CBMC float model)" % nb,
                      timeout=600, min_props=4))
        js.append(Job("utils.float_clamp.n%d" % nb, "C10/utils.c", defines={"VF_UT": 2, "VF_NB": nb}, kind="proof",
                      functions=["float_to_unorm", "pixman_float_to_unorm"],
                      domain="every non-NaN float (incl. infinities, denormals): result <= max, f >= 1 -> max, f <= 0 -> 0",
                      timeout=600, min_props=3, assumptions=["float_to_unorm: NaN input excluded (float -> uint32_t conversion of NaN is undefined behaviour in C; the code has no NaN guard)"]))
    for ch in ((3, 0) if tier == "quick" else (0, 1, 2, 3)):
        js.append(Job("utils.expand_contract.ch%d" % ch, "C10/utils.c", defines={"VF_UT": 3, "VF_CH": ch}, unwind=2, kind="proof",
                      functions=["pixman_expand_to_float", "pixman_contract_from_float"],
                      domain="every a8r8g8b8 pixel, width 1 (one loop iteration), channel %d: contract(expand(p)) == p" % ch,
                      timeout=600, min_props=2))
    return js


# extension modules merged into this property's job list (vdriver.ext_jobs / ext_meta)
EXT = [
    ("C10_c10d", None),
    ("C10_msc", None),
]


def jobs(tier):
    js = table_jobs() + misc_jobs(tier)
    for f, bpp, kind in FORMATS:
        js += fmt_jobs(f, bpp, kind, 0, tier)
        acc = fmt_jobs(f, bpp, kind, 1, tier)
        if tier == "quick":
            if kind != "rgb" and f not in ("g4", "c8"):   # indexed stores: ~60 s each, two of the five in the quick tier
                js = [j for j in js if not (j.name.startswith("store_") and j.name.endswith("." + f))]
            if f not in QUICK_ACC:
                js = [j for j in js if j.name != "roundtrip_store_fetch." + f]
            acc = [j for j in acc if j.name.startswith("fetch_pixel.") or
                   (f in QUICK_ACC_SCAN and j.name.split(".")[0] in ("store_frame", "store_value", "fetch_scanline"))]
        js += acc
    # route D (lead): the macro-generated row loop closed by a loop invariant instead of unrolling: any width and x inside a
    # 64-word row (a 4096-word row did not finish in 10 min: the bound is the row buffer, not an unwinding depth)
    if tier != "quick":
        for f in ("a8r8g8b8", "r5g6b5", "a8", "a4", "a1", "x4r4g4b4"):
            tpl = {"assigns": "i, buffer, __CPROVER_object_whole(buffer)",
                   "invariants": "0 <= i && i <= width && buffer == __CPROVER_loop_entry(buffer) + i && "
                                 "(gk < i ==> __CPROVER_loop_entry(buffer)[gk] == SF_WIDEN_PIX(VF, SF_RAW(VF, bits, x + gk))) && "
                                 "__CPROVER_loop_entry(buffer)[width] == __CPROVER_loop_entry(__CPROVER_loop_entry(buffer)[width])",
                   "decreases": "width - i", "vars": ["i", "buffer", "width", "x", "bits", "gk=gk"], "headers": ["spec_format.h"]}
            js.append(Job("rowD.fetch_scanline." + f, "C10/scanline_d.c", route="D", enforce="fetch_scanline_" + f,
                          defines={"VF": f, "VD_STORE": 0, "VD_ROWWORDS": 64}, loops={"fetch_scanline_" + f: [tpl]}, kind="proof",
                          functions=["fetch_scanline_" + f, "fetch_and_convert_pixel", "convert_pixel"],
                          domain="enforced function contract + loop invariant: every width and x inside a 64-word row, every memory content, ghost pixel",
                          timeout=2400, min_props=10))
    # formats outside MAKE_ACCESSORS (no codec spec here): scanline reader == single-pixel reader, relational (lead)
    for f in ("yuy2", "yv12", "a8r8g8b8_32_sRGB"):
        if tier == "quick" and f == "a8r8g8b8_32_sRGB":
            continue
        js.append(Job("readers_agree." + f, "C10/readers_agree.c", defines={"VF": f, "VF_W": 4}, kind="bounded",
                      bound="8x4 image, scanline width 4 at every x and line", functions=["fetch_scanline_" + f, "fetch_pixel_" + f],
                      domain="every memory content; fetch_scanline(x,line,4)[k] == fetch_pixel(x+k,line)", unwind=6, timeout=1200, min_props=2))
    return js + ext_jobs(tier, EXT)


META = {
    "level": "proof",
    "trusted_base": [
        "spec/spec_format.h: literal per-format field table (offset/width of a,r,g,b restated by hand from the format names), WIDEN = bit replication written as multiplication by 1+2^w+..., NARROW = top bits, little-endian pixel layout; justified by the lemma.* and table.* jobs",
        "harness/C10/fmt_common.h: hand-built bits_image_t (bits, rowstride, format, indexed, read_func/write_func); accessor build: read_func/write_func stubs that add a fixed displacement (decoy area at image->bits, pixel memory only reachable through the callbacks)",
    ],
    "assumptions": [
        "little-endian x86 layout only (WORDS_BIGENDIAN branches of the FETCH_*/STORE_* macros are not compiled)",
        "scanline loops of fetch_scanline_<f>/store_scanline_<f> are unrolled (width <= 4 quick / 8 thorough): bounded; fetch_pixel_<f> and the one-pixel round trips are loop-free and cover every x of the row",
        "row buffer of 8 (32/24/16/8 bpp), 16 (4 bpp) or 64 (1 bpp) pixels: every position of a pixel inside a 32-bit word occurs; pixels accessed lie inside the image row",
        "indexed formats: read side for every palette; write side (ent[] lookup) only against the fixed pseudo-random palette harness/C10/palette_fixed.h, width <= 1 (value) / 2 (frame); the round trip of indexed formats depends on the palette and is not claimed",
        "x (unused) bits of a stored pixel are not constrained by the property (the code writes 0 there); 'defined bits' = the fields named in the format",
        "float converters: CBMC's IEEE-754 single model, round-to-nearest; NaN inputs excluded",
    ],
    "not_covered": [
        "yuy2 / yv12 fetchers", "a2r10g10b10 / x2r10g10b10 / a2b10g10r10 / x2b10g10r10 float accessors", "a8r8g8b8_sRGB (to_linear table, to_srgb search)",
        "rgba_float / rgb_float accessors", "fetch_scanline_generic_float / store_scanline_generic_float / fetch_pixel_generic_lossy_32 glue (only expand/contract at width 1 are checked)",
        "big-endian layout", "scanline loops beyond the unrolling bound (no route-D loop contract yet)", "dithering",
        "MEMSET_WRAPPED and the accessor use outside pixman-access.c (pixman-bits-image.c, pixman-edge-accessors.c)",
    ],
}
META = ext_meta(META, EXT)
