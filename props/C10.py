"""C10 — pixel formats: exact codec, bit-replicated widening, store frame, scanline == single pixel,
accessor build (read_func/write_func) == direct build, dispatch by format code.

The harness list is generated from FORMATS below and cross-checked on every run against the
`accessors[]` table in the pixman-access.c of the tree under check (source scan): a format present
there and absent here gives a job that cannot be built (=> UNDECIDED, exit 2), never a silent pass.
"""
import os, re
from vdriver import Job, REPO

# name: (bpp, kind)   kind: rgb = direct colour/alpha fields, color/gray = palette index
FORMATS = [
    ("a8r8g8b8", 32, "rgb"), ("x8r8g8b8", 32, "rgb"), ("a8b8g8r8", 32, "rgb"), ("x8b8g8r8", 32, "rgb"),
    ("b8g8r8a8", 32, "rgb"), ("b8g8r8x8", 32, "rgb"), ("r8g8b8a8", 32, "rgb"), ("r8g8b8x8", 32, "rgb"),
    ("x14r6g6b6", 32, "rgb"),
    ("r8g8b8", 24, "rgb"), ("b8g8r8", 24, "rgb"),
    ("r5g6b5", 16, "rgb"), ("b5g6r5", 16, "rgb"),
    ("a1r5g5b5", 16, "rgb"), ("x1r5g5b5", 16, "rgb"), ("a1b5g5r5", 16, "rgb"), ("x1b5g5r5", 16, "rgb"),
    ("a4r4g4b4", 16, "rgb"), ("x4r4g4b4", 16, "rgb"), ("a4b4g4r4", 16, "rgb"), ("x4b4g4r4", 16, "rgb"),
    ("a8", 8, "rgb"), ("r3g3b2", 8, "rgb"), ("b2g3r3", 8, "rgb"), ("a2r2g2b2", 8, "rgb"), ("a2b2g2r2", 8, "rgb"),
    ("c8", 8, "color"), ("g8", 8, "gray"), ("x4a4", 8, "rgb"),
    ("a4", 4, "rgb"), ("r1g2b1", 4, "rgb"), ("b1g2r1", 4, "rgb"), ("a1r1g1b1", 4, "rgb"), ("a1b1g1r1", 4, "rgb"),
    ("c4", 4, "color"), ("g4", 4, "gray"),
    ("a1", 1, "rgb"), ("g1", 1, "gray"),
]
# rows of accessors[] that are the same format code and the same functions as a covered format
ALIASES = {"x4c4": "c8", "x4g4": "g8"}
# rows of accessors[] knowingly NOT covered by a codec obligation (listed in META.not_covered)
NOT_COVERED = ["a8r8g8b8_sRGB", "rgba_float", "rgb_float", "a2r10g10b10", "x2r10g10b10", "a2b10g10r10",
               "x2b10g10r10", "yuy2", "yv12"]

# pixels per row of the test image: at least two 32-bit words of pixels for every bpp
NPIX = {32: 8, 24: 8, 16: 8, 8: 8, 4: 16, 1: 64}
WMAX = 8  # scanline width cap of the unrolled scanline jobs


def scan_accessors_table():
    """format names of the rows of the real accessors[] table (source text of the tree under check)"""
    path = os.path.join(REPO, "pixman", "pixman-access.c")
    try:
        text = open(path).read()
    except OSError:
        return None, "cannot read " + path
    m = re.search(r"static\s+const\s+format_info_t\s+accessors\s*\[\s*\]\s*=\s*\{(.*?)\n\};", text, re.S)
    if not m:
        return None, "accessors[] table not found in pixman-access.c (renamed?)"
    body = re.sub(r"/\*.*?\*/", "", m.group(1), flags=re.S)
    names = re.findall(r"FORMAT_INFO\s*\(\s*(\w+)\s*\)", body)
    names += [n for n in re.findall(r"\{\s*PIXMAN_(\w+)\s*[,}]", body) if n != "null"]
    made = re.findall(r"^MAKE_ACCESSORS\s*\(\s*(\w+)\s*\)", text, re.M)
    return (names, made), ""


def table_jobs():
    """exit-2 sentinels: a job that cannot build for every discrepancy between the real table and FORMATS"""
    got, err = scan_accessors_table()
    known = {f for f, _, _ in FORMATS} | set(ALIASES) | set(NOT_COVERED)
    problems = []
    if got is None:
        problems.append(("table_unreadable", err))
    else:
        names, made = got
        for n in names:
            if n not in known:
                problems.append(("unlisted_format_" + n, "format %s is in accessors[] but not in props/C10.py FORMATS" % n))
        for n in made:
            if n not in known:
                problems.append(("unlisted_MAKE_ACCESSORS_" + n, "MAKE_ACCESSORS(%s) exists but %s is not in props/C10.py FORMATS" % (n, n)))
        for f, _, _ in FORMATS:
            if f not in names:
                problems.append(("format_gone_" + f, "format %s of props/C10.py is no longer a row of accessors[]" % f))
    return [Job("table." + tag, "C10/table_mismatch.c", defines={"VF_TABLE_PROBLEM": '"%s"' % msg.replace('"', "'")},
                kind="proof", note=msg, timeout=60) for tag, msg in problems]


def jobs(tier):
    js = table_jobs()
    for acc in (0, 1):
        sfx = ".acc" if acc else ""
        accd = {"VF_ACC": 1} if acc else {}
        for f, bpp, kind in FORMATS:
            base = dict(accd, VF=f, VF_NPIX=NPIX[bpp])
            fns = ["fetch_pixel_" + f]
            js.append(Job("fetch_pixel.%s%s" % (f, sfx), "C10/fetch_pixel.c", defines=base, kind="proof",
                          functions=fns + ["fetch_and_convert_pixel", "convert_pixel", "unorm_to_unorm"],
                          domain="every memory content (2^bpp raw values), every x in a %d-pixel row (all positions in a 32-bit word), 2 rows, top-down and bottom-up%s"
                                 % (NPIX[bpp], "; any palette" if kind != "rgb" else ""),
                          timeout=300, min_props=3))
    return js


META = {
    "level": "proof",
    "trusted_base": ["spec/spec_format.h: literal per-format field table (offset/width of a,r,g,b restated by hand from the format names), WIDEN = bit replication as multiplication, NARROW = top bits; little-endian pixel layout"],
    "assumptions": [],
    "not_covered": [],
}
