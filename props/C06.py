"""C06 — regions stay canonical; equal() is set equality.

* canon(result) (spec/spec_region.h sr_canon: every clause of the C06 statement + memory shape) is a conjunct
  of every C05 postcondition; the C05 job generators are reused here (obligation `post.result_canonical`).
* pixman_coalesce ("identical adjacent bands are merged") and pixman_set_extents ("tight bounding box") have
  their own contracts (harness/C05/leaf.c).
* PREFIX(_equal) == same point set; PREFIX(_selfcheck) accepts every canonical region (harness/C05/equal.c).
* Obligations that FAIL on the pinned tree have their own jobs (names finding.*), see the report / known-findings.
"""
from vdriver import Job, ext_jobs, ext_meta
import C05

LEAK = ["--memory-leak-check"]
SHAPE = {0: "single rectangle", 1: "empty (any degenerate extents)", 2: "canonical 2-rectangle heap region",
         3: "canonical 3-rectangle heap region"}


def equal_jobs(bits, tier):
    js = []
    pf = C05.pfx(bits, "equal")
    cases = [(0, 0, 0), (0, 1, 0), (1, 0, 0), (0, 0, 1), (1, 1, 1)]
    for sa, sb, alias in cases:
        js.append(Job("equal%d.s%d%d.alias%d" % (bits, sa, sb, alias), "C05/equal.c",
                      defines={"VR_BITS": bits, "VR_FN": 1, "VR_SA": sa, "VR_SB": sb, "VR_ALIAS": alias},
                      kind="proof", functions=[pf], unwind=3, timeout=600, min_props=3,
                      domain="%s; r1: %s, r2: %s%s; equal() TRUE <=> no point separates the two sets (corner-point witness), "
                             "and TRUE => same membership of a ghost point" % (C05.coord(bits), SHAPE[sa], SHAPE[sb], ", r1==r2" if alias else "")))
    multi = [(2, 2), (0, 2), (2, 1), (2, 3)] if tier == "quick" else [(2, 2), (0, 2), (2, 0), (2, 1), (1, 2), (3, 3), (2, 3)]
    if bits == 16 and tier == "quick":
        multi = [(2, 2)]
    for sa, sb in multi:
        js.append(Job("equal%d.s%d%d" % (bits, sa, sb), "C05/equal.c",
                      defines={"VR_BITS": bits, "VR_FN": 1, "VR_SA": sa, "VR_SB": sb, "VR_ALIAS": 0},
                      kind="bounded", bound="regions of at most %d rectangles" % max(sa, sb), functions=[pf], unwind=5, timeout=1200,
                      min_props=3,
                      domain="%s; r1: %s, r2: %s; equal() TRUE <=> identical rectangle lists; TRUE => same membership of a ghost point"
                             % (C05.coord(bits), SHAPE[sa], SHAPE[sb]),
                      assumptions=["for canonical regions 'same points' <=> 'same rectangle list' (uniqueness of the canonical form: argued, not machine-checked)"]))
    # the property's "all empty regions being equal" (failed on the pinned tree; repaired by the fix: commit in /repo)
    js.append(Job("equal%d.empty_vs_empty" % bits, "C05/equal.c",
                  defines={"VR_BITS": bits, "VR_FN": 1, "VR_SA": 1, "VR_SB": 1, "VR_ALIAS": 0},
                  kind="proof", functions=[pf], unwind=3, timeout=600, min_props=3,
                  domain="%s; two empty regions, each with arbitrary degenerate extents (as a trivially rejected intersect / "
                         "subtract(m,m) leaves them): equal() must be TRUE" % C05.coord(bits)))
    return js


def selfcheck_jobs(bits, tier):
    js = []
    pf = C05.pfx(bits, "selfcheck")
    shapes = (0, 1, 2) if tier == "quick" else (0, 1, 2, 3)
    if bits == 16 and tier == "quick":
        shapes = (0, 1)
    for sa in shapes:
        js.append(Job("selfcheck%d.s%d" % (bits, sa), "C05/equal.c",
                      defines={"VR_BITS": bits, "VR_FN": 2, "VR_SA": sa, "VR_SB": 1},
                      kind="proof" if sa <= 1 else "bounded", bound="" if sa <= 1 else "region with exactly %d rectangles" % sa,
                      functions=[pf], unwind=5, timeout=1200, min_props=2,
                      domain="%s; %s: canonical => selfcheck TRUE" % (C05.coord(bits), SHAPE[sa])))
    return js


def finding_canon_jobs(bits):
    """an EMPTY box / zero-size rectangle argument: point set right, representation not canonical"""
    js = []
    for fn, name, what in ((2, "intersect_rect", "width == 0 or height == 0"), (1, "inverse", "empty (not inverted) inv_rect")):
        js.append(Job("finding.canon%d.%s_empty_arg" % (bits, name), "C05/unop.c",
                      defines={"VR_BITS": bits, "VR_FN": fn, "VR_SA": 0, "VR_ALIAS": 0, "VR_DST": 0, "VR_BOX": 1, "VR_OPMODE": 1},
                      kind="proof", functions=[C05.pfx(bits, name)], unwind=3, cbmc_flags=LEAK, timeout=900, min_props=4,
                      domain="%s; source: single rectangle; %s; result must be the empty set in canonical form" % (C05.coord(bits), what),
                      assumptions=[C05.PRUNE]))
    return js


def equal_d_job():
    """(lead) route D: equal() never says TRUE for different rectangle lists, ANY number of rectangles"""
    tpl = {"assigns": "i",
           "invariants": "0 <= i && i <= reg1->data->numRects && (g_i < i ==> (rects1[g_i].x1 == rects2[g_i].x1 && rects1[g_i].y1 == rects2[g_i].y1 && "
                         "rects1[g_i].x2 == rects2[g_i].x2 && rects1[g_i].y2 == rects2[g_i].y2))",
           "decreases": "reg1->data->numRects - i", "vars": ["i", "reg1", "rects1", "rects2", "g_i=g_i"], "headers": []}
    return Job("equalD.region32.any_rect_count", "C06/equal_d.c", route="D", enforce="pixman_region32_equal",
               loops={"pixman_region32_equal": [tpl]}, kind="proof", functions=["pixman_region32_equal"], timeout=900, min_props=10,
               domain="enforced function contract + loop invariant: heap regions with any 1 <= numRects <= 2^20 each: TRUE => same extents, "
                      "same count and equal rectangles at a ghost index; assigns nothing; terminates")


# extension modules merged into this property's job list (vdriver.ext_jobs / ext_meta)
EXT = [
    # pixman_op / validate carry the canonical-form obligations c06.* (seeds C06-2, C06-5)
    ("C05_opv", lambda n: n.startswith(("op", "validate", "lemma.canon"))),
    # bitmap import: the end-to-end jobs carry the canonical-form obligations (post.shape.*) (seeds C06-4 / C07-4)
    ("C07_msc", lambda n: n.startswith("image_e2e")),
]


def jobs(tier):
    js = [equal_d_job()]
    for bits in (32, 16):
        js += equal_jobs(bits, tier)
        js += selfcheck_jobs(bits, tier)
        js += finding_canon_jobs(bits)
        js += C05.band_jobs(bits, tier)      # obligation band.appended_boxes_canonical
        js += C05.leaf_jobs(bits, tier)
        # canon(result) as a conjunct of the C05 postconditions: the distinct-object cases of every operation
        shared = [j for j in C05.binop_jobs(bits, tier) + C05.unop_jobs(bits, tier)
                  if (tier != "quick") or (".alias0." in j.name and j.name.endswith(".d0"))]
        if tier == "quick" and bits == 16:
            shared = [j for j in shared if ".s00." in j.name or ".s0." in j.name]
        js += shared
    return js + ext_jobs(tier, EXT)


META = {
    "level": "proof",
    "trusted_base": [
        "spec/spec_region.h sr_canon: non-empty rectangles, band/x order, common y extent in a band, gaps inside a band, no mergeable "
        "adjacent bands, tight extents, 1 rectangle => data==NULL, 0 rectangles => static empty block",
        "harness/C05/rh.h: interception of pixman_op (see C05)",
    ],
    "assumptions": [
        "uniqueness of the canonical form (same points => same rectangle list) is a mathematical consequence of sr_canon; argued, not machine-checked",
        "canon(result) of results that need pixman_op (more than one rectangle) rests on the bounded C05 op.* jobs and the leaf contracts",
        "canon of an empty region: static empty block with degenerate extents (selfcheck's notion); the extents VALUES of empty regions are "
        "not normalised by the library, which is what finding.equal*.empty_vs_empty shows",
        "selfcheck: only 'canonical => TRUE' is claimed; selfcheck does not test band merging, gaps (touching rectangles pass) or the first rectangle",
    ],
    "not_covered": ["history quantifier (any sequence of operations): covered inductively — every operation under contract maps canonical "
                    "operands to a canonical result; operations not under contract (translate, init_from_image: C07; pixman_op union/subtract: "
                    "unverified, see C05) break the induction"],
}
META = ext_meta(META, EXT)
