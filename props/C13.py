"""C13 — gradients, integer / safety half only.

Decided: the stop array layout (_pixman_init_gradient), the sentinel stops per repeat mode
(gradient_property_changed), the walker's stop lookup, repeat folding and REFLECT swap
(gradient_walker_reset), and one fixed degenerate scanline case of the linear gradient.
NOT decided (no real arithmetic, no sqrt/atan2 models, symbolic double multiply/divide does not finish):
the colour half of the property and the float geometry of the three get_scanline functions."""
from vdriver import Job, ext_jobs, ext_meta

HEAP = ["--memory-leak-check"]
REP = [(0, "none"), (1, "normal"), (2, "pad"), (3, "reflect")]
A_POS = "gradient_walker_reset: |pos| < 2^47 (the nominal range of the 48.16 parameter; the code's own `pos - x` is the limit)"
A_SORT = "sorted jobs: stop positions non-decreasing in [0, 65536] (the colour claim's domain in the property)"


# extension modules merged into this property's job list (vdriver.ext_jobs / ext_meta)
EXT = [
    ("C13_grd", None),
]


def jobs(tier):
    thorough = tier != "quick"
    js = []
    ns = (1, 2, 3, 4) if thorough else (1, 3)
    for code, name in REP:
        for n in ns:
            js.append(Job("walker.lookup.%s.n%d" % (name, n), "C13/walker.c", defines={"VC_REPEAT": code, "VC_N": n, "VC_SORTED": 1},
                          kind="bounded", bound="%d stops" % n, unwind=n + 4, cbmc_flags=["--slice-formula"], timeout=600, min_props=100,
                          functions=["gradient_walker_reset", "_pixman_gradient_walker_init", "gradient_property_changed"],
                          domain="any non-decreasing stop positions in [0,1], any colours, any 48.16 pos; sentinels written by the real "
                                 "gradient_property_changed into a block of exactly n+2 entries",
                          assumptions=[A_POS, A_SORT]))
        n = 4 if thorough else 2
        js.append(Job("walker.safety.%s.n%d" % (name, n), "C13/walker.c", defines={"VC_REPEAT": code, "VC_N": n, "VC_SORTED": 0},
                      kind="bounded", bound="%d stops" % n, unwind=n + 4, cbmc_flags=["--slice-formula"], timeout=600, min_props=100,
                      functions=["gradient_walker_reset"],
                      domain="ARBITRARY (unsorted, equal, negative) stop positions, any pos: accesses stay inside the n+2 entries",
                      assumptions=[A_POS, "safety jobs: sentinel entries written by the harness (INT32_MIN / INT32_MAX)"]))
    for code, name in REP + [(4, "other")]:
        for n in ((1, 2, 4) if thorough else (1, 3)):
            js.append(Job("sentinels.%s.n%d" % (name, n), "C13/sentinels.c", defines={"VC_REPEAT": code, "VC_N": n, "VC_RANGE": 1},
                          kind="bounded", bound="%d stops" % n, unwind=n + 4, timeout=300, min_props=60,
                          functions=["gradient_property_changed"],
                          domain="any stop positions in [0,1], any colours, any previous sentinel content; repeat = " + name,
                          assumptions=["sentinels.*: stop positions in [0, 65536] (documented range 0.0..1.0; arbitrary positions: finding.sentinels.*)"]))
    for code, name in ((1, "normal"), (3, "reflect")):
        js.append(Job("finding.sentinels.%s.arbitrary_positions" % name, "C13/sentinels.c",
                      defines={"VC_REPEAT": code, "VC_N": 2, "VC_RANGE": 0}, kind="bounded", bound="2 stops", unwind=6, timeout=300,
                      min_props=60, functions=["gradient_property_changed"],
                      domain="arbitrary int32 stop positions (nothing validates them in pixman_image_create_*_gradient)",
                      note="EXPECTED TO FAIL on the unchanged tree: the sentinel position is computed in int32 (x - 1.0, x + 1.0, -x, 2.0 - x): signed overflow"))
    js.append(Job("init.copy", "C13/init.c", defines={"VC_CASE": 0}, kind="bounded", bound="n_stops <= 4", cbmc_flags=HEAP, unwind=7,
                  timeout=300, min_props=60, functions=["_pixman_init_gradient", "pixman_malloc_ab"],
                  domain="1 <= n_stops <= 4, any stops, the allocation may fail"))
    js.append(Job("init.nonpositive", "C13/init.c", defines={"VC_CASE": 1}, kind="proof", cbmc_flags=HEAP, unwind=7, timeout=300,
                  min_props=40, functions=["_pixman_init_gradient"], domain="every n_stops <= 0"))
    js.append(Job("init.too_many", "C13/init.c", defines={"VC_CASE": 2}, kind="proof", cbmc_flags=HEAP, unwind=7, timeout=300,
                  min_props=40, functions=["_pixman_init_gradient", "pixman_malloc_ab"],
                  domain="INT32_MAX/12 - 2 <= n_stops <= INT32_MAX - 2 (size does not fit)",
                  assumptions=["_pixman_init_gradient: n_stops <= INT32_MAX - 2 (n_stops + 2 is computed in int before the size test)"]))
    for code, name in REP:
        if not thorough and code in (0, 2):
            continue
        js.append(Job("scanline.linear.coincident." + name, "C13/linear_degenerate.c", defines={"VC_REPEAT": code}, kind="bounded",
                      bound="fixed degenerate case: p1 == p2 == (3.5,-2.0), no transform, 2 fixed stops, width <= 2",
                      unwind=6, cbmc_flags=["--conversion-check", "--float-div-by-zero-check"], timeout=600, min_props=100,
                      extra_sources=["repo:pixman/pixman-matrix.c"],     # pixman_transform_point_3d (unreachable: no transform; needed to link the replay)
                      functions=["linear_get_scanline", "_pixman_gradient_walker_fill_narrow", "gradient_walker_reset"],
                      domain="any pixel position 0..32767, width 0..2, repeat " + name,
                      assumptions=["scanline.linear.*: pixel position non-negative (conversion-check cannot be limited to double->int and "
                                   "flags the well-defined unsigned casts of pixman_int_to_fixed otherwise)"]))
    # (lead) route D: memory safety of the stop search for ANY number of stops (loop invariant instead of unrolling)
    js.append(Job("walkerD.reset.any_stop_count", "C13/walker_d.c", route="D", enforce="gradient_walker_reset",
                  loops={"gradient_walker_reset": [{"assigns": "n", "invariants": "0 <= n && n <= count", "decreases": "count - n",
                                                    "vars": ["n", "count"], "headers": []}]},
                  cbmc_flags=["--no-signed-overflow-check"], kind="proof", functions=["gradient_walker_reset"], timeout=1200, min_props=10,
                  domain="enforced function contract + loop invariant: any 1 <= num_stops <= 2^20, any stop positions/colours, any repeat, any "
                         "pos: stops[n-1] and stops[n] stay inside the n+2 block, only *walker is assigned, the loop terminates",
                  assumptions=["walkerD: signed-overflow check off (left_x + (pos - x) for extreme pos: the integer jobs walker.lookup.* carry |pos| < 2^47)"]))
    return js + ext_jobs(tier, EXT)


META = {
    "level": "proof",
    "level_note": "integer / safety half only: stop-array layout, sentinel table, stop lookup + repeat folding + REFLECT swap, allocation; "
                  "every job caps the number of stops (<= 4) and is reported as bounded; the colour half of the property is not decided",
    "trusted_base": ["harness/C13/sentinels.c + walker.c: sentinel table per repeat mode and the folding u(pos) written from the property text"],
    "assumptions": [A_POS],
    "not_covered": [
        "colour accuracy (within one 8-bit step), interpolation coefficients of gradient_walker_reset (float), premultiplication",
        "radial root selection (PDF type 3), conical atan2 parameter, linear projection value: no real arithmetic / no sqrt, atan2 models",
        "radial_get_scanline and conical_get_scanline safety (division by zero, double->int range, termination): UNVERIFIED — not attempted "
        "beyond reading; linear_get_scanline only for one fixed degenerate case (coincident points, no transform); a query with a "
        "symbolic end point did not finish in 300 s",
        "linear_get_scanline's narrowing of t (double) to 32.32 for nearly coincident points (DESIGN.md reading note): not decided",
        "more than 4 stops (lookup loop unrolled; no loop contract)",
    ],
}
META = ext_meta(META, EXT)
