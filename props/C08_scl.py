"""C08_scl (C04 + C08, helper scl) - the macro-generated scaled NEAREST / BILINEAR main loops of pixman-inlines.h

    FAST_NEAREST_MAINLOOP_COMMON / _INT      fast_composite_scaled_nearest_*
    FAST_BILINEAR_MAINLOOP_COMMON / _INT     fast_composite_scaled_bilinear_*     (+ bilinear_pad_repeat_get_scanline_bounds,
                                             pad_repeat_get_scanline_bounds, repeat, pixman_fixed_to_bilinear_weight as they run)

under contract: harness/C08/scl_mainloop.c instantiates the REAL macros with a contract stub as scanline function (what
FAST_NEAREST_SCANLINE / scaled_*_scanline_sse2_* read and write for their arguments) and decides, per repeat mode
(COVER / NONE / PAD / NORMAL),
  c04.*  every address a scanline function is told to read lies inside the source storage or an object of the main loop;
         the destination span lies inside the row of the composite box; span positions are 16.16 numbers
  c08.*  a ghost pixel of the box is composited exactly once, from the documented sample of the repeated image
         (spec/spec_scl.h: nearest floor (x - e); bilinear four neighbours of x - 1/2 with the 7-bit weights).
One x scale (matrix[0][0]) per job: with a symbolic unit_x the tiling of a scanline (left_pad*unit_x + i*unit_x against
k*unit_x) is multiplier distributivity, which the SAT back end does not decide.  Everything else is symbolic.
"""
from vdriver import Job

REPN = {0: "none", 1: "normal", 2: "pad", 4: "cover"}
FILN = {0: "nearest", 1: "bilinear"}
FN = {0: ["FAST_NEAREST_MAINLOOP_INT", "FAST_NEAREST_MAINLOOP_COMMON"],
      1: ["FAST_BILINEAR_MAINLOOP_INT", "FAST_BILINEAR_MAINLOOP_COMMON", "pixman_fixed_to_bilinear_weight"]}

A_T3D = ("scl.*: pixman_transform_point_3d replaced by a model returning a harness-chosen vector v (checked: called once with the centre of the "
         "first pixel); the sample position of pixel (k, j) is v + (k*matrix[0][0], j*matrix[1][1]) (the transform itself: C11)")
A_RANGE = ("scl.*: precondition = analyze_extent returned TRUE: the transformed centres of columns -1 and width (rows -1 and height) with the "
           "filter offset and 8/65536 slack fit int32 16.16; extents fit 16 bits (width <= 65533); source width, height in [1, 32766]")
A_XPOS = "scl.*.none/pad/normal: matrix[0][0] > 0 (FAST_PATH_X_UNIT_POSITIVE, demanded by the fast-path table entries of these instances)"
A_COVER = ("scl.*.cover: precondition = FAST_PATH_SAMPLES_COVER_CLIP_NEAREST (floor (x - e) in [0, width) for the first and last centre, same for y) / "
           "_BILINEAR (floor (x - 1/2) >= 0 and floor (x + 1/2) < width) exactly as pixman.c analyze_extent computes them; x scale of either sign")
def a_normal(k):
    return ("scl.*.normal: every sample position within [-%d, %d) source widths / heights (the while loops of repeat() and of the main loop are unwound; "
            "repeat() for every operand: C08 repeat.* jobs)" % (k, k + 1))


A_STUB = ("scl.*: the scanline function is a contract stub: pixel i reads src[(vx + i*unit_x) >> 16] (bilinear: that word and the next one of both "
          "rows, whatever the weights; NORMAL nearest: position wrapped into [-max_vx, 0)), derived from FAST_NEAREST_SCANLINE and "
          "scaled_{nearest,bilinear}_scanline_sse2_*; the real scanline functions against this contract are NOT decided here")
A_STRIDE = ("scl.*: source rowstride fixed to +-VC_SWMAX words (width == VC_SWMAX is the minimal stride, smaller widths are padded rows), "
            "destination rowstride fixed to VC_WMAX + 8 words; no mask (FLAG_NONE / have_mask FALSE)")


def ml_job(fil, rep, ux, sw=(1, 8), wmax=64, hmax=2, shmax=3, k=2, neg=0, novalue=False, timeout=600, tag="", extra=None):
    d = {"VC_FILTER": fil, "VC_REP": rep, "VC_UX": "(%d)" % ux, "VC_SWMIN": sw[0], "VC_SWMAX": sw[1], "VC_WMAX": wmax, "VC_HMAX": hmax,
         "VC_SHMAX": shmax, "VC_SNEG": neg, "VC_K": k}
    if novalue:
        d["VC_NOVALUE"] = 1
    d.update(extra or {})
    uxn = ("m%x" % -ux) if ux < 0 else "%x" % ux
    name = "scl.%s.%s.ux_%s%s" % (FILN[fil], REPN[rep], uxn, tag)
    ml = "fast_composite_scaled_%s_vh" % FILN[fil]
    # loop ids = order of the back edges in the macro-generated function (the do{}while(0) of PIXMAN_IMAGE_GET_LINE come first):
    # nearest .3 row loop; bilinear .3 while (src_width < MIN) .4 for j .5 for i .6 while (width_remain > 0) .7 row loop.
    # A change that adds or removes a loop shifts them: the unwinding assertions then fail = undecided, never a verdict.
    uset = ["%s.%d:%d" % (ml, 3 if fil == 0 else 7, hmax + 1), "vh_locate.0:%d" % (hmax + 1), "harness.0:%d" % (hmax + 1)]
    unwind = hmax + 1
    if rep == 1:
        unwind = k + 4          # repeat(), vh_mod, the wrap loop of the nearest stub
        if fil == 1:
            if sw[1] < 64:      # narrow source: the extension loops run (sw[0] == sw[1]); extended width = n * sw
                n = -(-64 // sw[1])
                ext = n * sw[1]
                uset += ["%s.3:%d" % (ml, n + 2), "%s.4:%d" % (ml, sw[1] + 1), "%s.5:%d" % (ml, n + 2)]
            else:
                ext = sw[0]
                uset += ["%s.3:1" % ml, "%s.4:1" % ml, "%s.5:1" % ml]
            chunks = -(-(wmax * abs(ux)) // (ext << 16)) + 3
            uset.append("%s.6:%d" % (ml, chunks))      # while (width_remain > 0)
    asm = [A_T3D, A_RANGE, A_STUB, A_STRIDE] + ([A_COVER] if rep == 4 else [A_XPOS]) + ([a_normal(k)] if rep == 1 else [])
    bound = ("matrix[0][0] fixed to %s (%.5f); composite box <= %d x %d (row loop unrolled); source %s..%d x <= %d pixels, rowstride %s%d"
             % (hex(ux), ux / 65536.0, wmax, hmax, sw[0], sw[1], shmax, "-" if neg else "+", sw[1]))
    if rep == 1:
        bound += "; positions within [-%d, %d) source sizes" % (k, k + 1)
    return Job(name, "C08/scl_mainloop.c", defines=d, unwind=unwind, cbmc_flags=["--unwindset", ",".join(uset + ["memcmp.0:72"])],
               kind="bounded", bound=bound, timeout=timeout, min_props=6,
               functions=FN[fil] + (["pad_repeat_get_scanline_bounds"] if rep in (0, 2) else []) +
                         (["bilinear_pad_repeat_get_scanline_bounds"] if rep in (0, 2) and fil == 1 else []) + (["repeat"] if rep in (1, 2) else []),
               domain="every v (16.16 position of the first pixel), y scale, box size/position, source size, ghost pixel of the box"
                      + ("" if novalue else ", source content"),
               assumptions=asm)


def jobs(tier):
    th = tier != "quick"
    js = []
    # quick: every instance kind once, a different x scale each
    js.append(ml_job(0, 4, -0x18000))
    js.append(ml_job(0, 2, 0x10000))
    js.append(ml_job(0, 0, 0x18000))
    js.append(ml_job(0, 1, 0x10000))
    js.append(ml_job(1, 4, 0x8000))
    js.append(ml_job(1, 2, 0x10000, wmax=16))
    js.append(ml_job(1, 0, 0x10000, wmax=16))
    js.append(ml_job(1, 1, 0x10000, sw=(64, 64), wmax=8, hmax=1, shmax=2, k=1))
    # the full source-width / box-width range (no value comparison: c04.* and the tiling of the box)
    FW = dict(sw=(1, 32766), wmax=65533, novalue=True, tag=".fullwidth", timeout=1200)
    js.append(ml_job(0, 0, 0x18000, **FW))
    js.append(ml_job(0, 1, 0x18000, **FW))
    js.append(ml_job(1, 4, 0x18000, **FW))
    if not th:
        return js
    # thorough: more x scales per instance (below 1, between 1 and 2, above 2, not a dyadic fraction), negative rowstride,
    # two box rows for NORMAL bilinear, the narrow-source (extended line) branch of NORMAL bilinear, and the full source /
    # box width range without the value comparison
    for ux in (0x8000, 0x18000, 0x2aaab, 0x5555):
        for rep in (4, 2, 0, 1):
            if (rep, ux) in ((0, 0x18000),):
                continue
            js.append(ml_job(0, rep, ux))
    js.append(ml_job(0, 4, 0x10000))
    for ux in (-0x10000, 0x18000, 0x2aaab):
        js.append(ml_job(1, 4, ux))
    for ux in (0x8000, 0x18000):
        js.append(ml_job(1, 2, ux, wmax=16, timeout=1200))
        js.append(ml_job(1, 0, ux, wmax=16, timeout=1200))
        js.append(ml_job(1, 1, ux, sw=(64, 64), wmax=8, hmax=1, shmax=2, k=1, timeout=1200))
    js.append(ml_job(1, 1, 0x10000, sw=(64, 64), wmax=8, hmax=2, shmax=2, k=1, timeout=2400, tag=".h2"))
    js.append(ml_job(1, 1, 0x10000, sw=(3, 3), wmax=8, hmax=1, shmax=2, k=1, timeout=2400, tag=".narrow3"))
    js.append(ml_job(0, 2, 0x10000, neg=1, tag=".negstride"))
    js.append(ml_job(1, 4, 0x8000, neg=1, tag=".negstride"))
    js.append(ml_job(1, 0, 0x10000, wmax=16, neg=1, tag=".negstride", timeout=1200))
    js.append(ml_job(0, 4, 0x18000, **FW))
    js.append(ml_job(0, 2, 0x18000, **FW))
    js.append(ml_job(0, 4, -0x2aaab, **FW))
    js.append(ml_job(1, 2, 0x10000, **FW))
    js.append(ml_job(1, 0, 0x10000, **FW))
    return js


META_EXTRA = {
    "trusted_base": [
        "spec/spec_scl.h: documented sample of a scaled source (nearest floor (x - e); bilinear neighbours of x - 1/2, 7-bit weights) and the "
        "term-by-term equality of weighted sums (weight-0 terms and all-zero rows vanish, equal terms merge) used to compare what the main loop "
        "hands to a scanline function with the reference",
        "harness/C08/scl_mainloop.c: contract stubs vh_nearest_scanline / vh_bilinear_scanline standing for every scanline function the macros are "
        "instantiated with (C, MMX, SSE2, SSSE3, VMX): which words they read and write for given arguments",
    ],
    "assumptions": [
        "scl.*: one x scale (matrix[0][0]) per job out of {-2.67, -1.5, -1, 1/3, 1/2, 1, 1.5, 2.67}; y scale, positions, sizes symbolic",
        "scl.*: composite box height <= 2 (row loop unrolled), source height <= 3; value jobs: source width <= 8 (NORMAL bilinear: 64, and 3 for the "
        "extended-line branch), box width <= 64 (bilinear NONE/PAD: 16, NORMAL: 8); *.fullwidth jobs: source width <= 32766, box width <= 65533, "
        "memory licence and tiling obligations only",
        A_T3D, A_RANGE, A_XPOS, A_COVER, A_STUB, A_STRIDE,
    ],
    "not_covered": [
        "the scanline functions themselves against the stub contract (FAST_NEAREST_SCANLINE instances, scaled_*_scanline_sse2_* / _mmx_ / ssse3): "
        "unverified here; their per-pixel arithmetic is C01/C02 territory",
        "mask variants of the main loops (have_mask / FLAG_HAVE_SOLID_MASK / FLAG_HAVE_NON_SOLID_MASK: the `mask +=` arithmetic and "
        "_pixman_image_get_solid): not instantiated",
        "uint16_t (r5g6b5) instantiations of the macros (src_type_t / dst_type_t other than uint32_t): the stride conversion "
        "`rowstride * 4 / sizeof (type)` is exercised for 4-byte pixels only",
        "symbolic x scale: the tiling of a scanline needs multiplier distributivity; only the fixed scales listed are decided",
        "NORMAL bilinear with a source narrower than 64 pixels (extended_src_line): width 3 only, box <= 8 x 1, thorough tier",
        "fast_bilinear_cover_iter_init / bits_image_fetch_*_affine (pixman-fast-path.c): props/C08.py fastpath.* jobs, not this module",
        "observation (no job): with -DVC_STEP_PAST=1 the position ONE STEP PAST a span is not always a 16.16 number - COVER nearest, x scale -2.67, "
        "source width 32766: vx - src_width_fixed + w*unit_x < INT32_MIN.  FAST_NEAREST_SCANLINE executes `vx += unit_x` after the last pixel of an "
        "even span: signed overflow (undefined behaviour) whose result is never used; no mis-addressing, hence not a C04 finding",
    ],
}
META = {"level": "proof", "trusted_base": META_EXTRA["trusted_base"], "assumptions": META_EXTRA["assumptions"], "not_covered": META_EXTRA["not_covered"]}
