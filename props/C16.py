"""C16 — concurrency.  Sequential contracts cannot decide schedules; what IS contract-shaped is the
ownership/frame premise of race freedom (DESIGN.md §5 C16): no function on the drawing path writes
library-internal state that is shared between threads.  This file holds the whole-library static fact;
the frame contracts of the dispatch layer are C02's jobs."""
import os, sys
sys.path.insert(0, os.path.join(os.path.dirname(os.path.abspath(__file__)), "..", "lib"))
import vdriver, statics
from vdriver import PyJob

# Reviewed list: object with static storage duration, not thread-local, not const  ->  functions allowed to assign it.
# Every writer is reached only from the library constructor (before any thread can call the library), except the two
# marked below.
ALLOWED = {
    "global_implementation": {"pixman_constructor"},
    "have_feature::1::features@pixman-x86.c": {"have_feature"},
    "have_feature::1::initialized@pixman-x86.c": {"have_feature"},
    # error-path message counter: written only when the library logs a programming error (invalid arguments);
    # unsynchronised by design, never read by drawing code
    "_pixman_log_error::1::n_messages@pixman-utils.c": {"_pixman_log_error"},
    # public set-up API for the X server (pixman_region_set_static_pointers), not a drawing request
    "pixman_broken_data@pixman-region16.c": {"pixman_region_set_static_pointers"},
    "pixman_region_empty_box@pixman-region16.c": {"pixman_region_set_static_pointers"},
    "pixman_region_empty_data@pixman-region16.c": {"pixman_region_set_static_pointers"},
    "pixman_broken_data@pixman-region32.c": set(),
    "pixman_region_empty_box@pixman-region32.c": set(),
    "pixman_region_empty_data@pixman-region32.c": set(),
    "fast_write_back_r5g6b5::1::volatile_x1F001F@pixman-fast-path.c": set(),
}
SSE2_MASKS = ["mask_0080", "mask_00ff", "mask_0101", "mask_565_b", "mask_565_fix_g", "mask_565_fix_rb", "mask_565_g1",
              "mask_565_g2", "mask_565_pack_multiplier", "mask_565_r", "mask_565_rb", "mask_alpha", "mask_blue",
              "mask_ff000000", "mask_ffff", "mask_green", "mask_red"]
for m in SSE2_MASKS:
    ALLOWED[m + "@pixman-sse2.c"] = {"_pixman_implementation_create_sse2"}

# who may call the writers (direct calls in the goto program): the chain from the constructor
CALLERS = {
    "have_feature": {"_pixman_x86_get_implementations"},
    "_pixman_implementation_create_sse2": {"_pixman_x86_get_implementations"},
    "_pixman_x86_get_implementations": {"_pixman_choose_implementation"},
    "_pixman_choose_implementation": {"pixman_constructor"},
    "pixman_constructor": set(),
}
MUST_BE_TLS = ["fast_path_cache"]


def static_fact(workdir):
    repo = vdriver.REPO
    inc = [f for f in vdriver.include_flags()[:2]]
    objs, writers, addr, errors = statics.scan(repo, inc, workdir)
    if errors:
        raise vdriver.Undecided("; ".join(errors)[:400])
    out = []
    for k in sorted(objs):
        w = writers.get(k, set())
        if k not in ALLOWED:
            out.append(("static.%s.is_reviewed_shared_object" % k, False,
                        "new object with static storage duration that is neither thread-local nor const: %s (type %s), writers %s"
                        % (k, objs[k]["type"], sorted(w))))
            continue
        extra = w - ALLOWED[k]
        out.append(("static.%s.writers_are_setup_only" % k, not extra,
                    "writers %s; allowed %s" % (sorted(w), sorted(ALLOWED[k]))))
    # thread-local objects the property names must still be thread-local (a lost TLS flag makes them show up in objs)
    for t in MUST_BE_TLS:
        hit = [k for k in objs if k.split("@")[0] == t]
        out.append(("static.%s.is_thread_local" % t, not hit, "fast-path cache must be thread-local (goto symbol table flag)"))
    # call chain of the writers
    import subprocess, re
    calls = {}
    for tu in statics.library_tus(repo):
        gb = os.path.join(workdir, tu + ".gb")
        gf = subprocess.run(["goto-instrument", "--show-goto-functions", gb], capture_output=True, text=True).stdout
        cur = None
        for line in gf.splitlines():
            m = re.match(r"^(\S+) /\* (\S+) \*/$", line)
            if m:
                cur = m.group(2)
                continue
            for callee in CALLERS:
                if cur and re.search(r"\bCALL\b.*\b%s\(" % re.escape(callee), line):
                    calls.setdefault(callee, set()).add(cur)
                elif cur and callee != cur and re.search(r"(?<![A-Za-z0-9_])%s(?![A-Za-z0-9_(])" % re.escape(callee), line) and "CALL" not in line and "//" not in line:
                    calls.setdefault(callee, set()).add(cur + " (address taken)")
    for callee, allowed in CALLERS.items():
        got = calls.get(callee, set())
        out.append(("static.%s.called_only_from_constructor_chain" % callee, got <= allowed,
                    "callers %s; allowed %s" % (sorted(got), sorted(allowed))))
    return out


def frame_jobs(tier):
    """sequential frame contracts the race-freedom argument rests on: images shared 'read-only after their first use' are
    really only read.  (a) _pixman_image_validate leaves a clean image untouched and leaves every image clean (C14's validate.*
    jobs, borrowed); (b) computing the composite region writes only the caller's region, never an image's clip region."""
    import importlib
    from vdriver import Job
    js = []
    try:
        c14 = importlib.import_module("C14")
        for j in c14.jobs(tier):
            if j.name.startswith("validate."):
                j.name = "C14:" + j.name
                js.append(j)
    except ImportError:
        pass
    js.append(Job("region.multi.frame", "C03/region_multi.c", defines={"VM_CHECKS": 2}, kind="proof", unwind=6, timeout=900, min_props=6,
                  functions=["_pixman_compute_composite_region32", "clip_general_image", "clip_source_image"],
                  assumptions=["pixman_region32_translate / pixman_region32_intersect are recording contract stubs (they write their first argument only: "
                               "C07 / C05 frame obligations); request coordinates in [-2^27, 2^27]"],
                  domain="every combination of multi-rectangle destination / source / mask / alpha-map clips and request geometry: the only region "
                         "object written while the composite region is computed is the caller's; no image is modified"))
    return js


def jobs(tier):
    return frame_jobs(tier) + [PyJob("static.shared_writable_state", static_fact, kind="proof", min_props=20,
                  functions=["(whole library: 33 translation units)"],
                  domain="every object with static storage duration in the 30 portable + 3 x86 SIMD translation units; every direct assignment to it in the goto program",
                  assumptions=["writes through pointers to static objects are not tracked by this scan (address-taken sites are listed in evidence)",
                               "the reviewed allow-list (props/C16.py) is the trusted part: constructor-time writers, error-path counter, region16 set-up API"])]


META = {
    "level": "other",
    "explanation": ("Frame/ownership premise of race freedom only. Checked: (1) the set of objects with static storage duration that are "
                    "neither thread-local nor const, over every library translation unit as compiled by goto-cc from the current tree, and "
                    "the functions that assign them, equals a reviewed list whose writers are reachable only from the library constructor "
                    "(plus an error-path counter and a documented set-up API); (2) fast_path_cache carries the thread_local flag. "
                    "Not decided: schedules, determinism under interleaving, races inside drawing routines on caller-owned images."),
    "trusted_base": ["goto-cc symbol table flags (static_lifetime, thread_local)", "reviewed allow-list in props/C16.py"],
    "assumptions": ["no thread model: CBMC contracts are sequential; 'every thread obtains the result it would obtain alone' is not decided"],
    "not_covered": ["schedule exploration", "data races on images shared by the caller in violation of the stated precondition"],
}
