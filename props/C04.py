"""C04 — no access outside the pixel storage the caller described.

(1) extent.*    analyze_extent + compute_transformed_extents: what the COVER_CLIP flags promise, 16.16 range.
(2) alloc.*     pixman_malloc_ab/abc/ab_plus_c, _pixman_*_overflows_*; bits.* create_bits / _pixman_bits_image_init.
(3) general.*   general_composite_rect scanline-buffer carving.
Memory-safety checks of CBMC (bounds, pointer, overflow, division by zero) are on in every job.
"""
from vdriver import Job, ext_jobs, ext_meta

A_DIV = ("allocation helpers: the divisor operands (b; c of pixman_malloc_abc) are not 0 - every call site passes a sizeof or a "
         "checked positive value (pixman_malloc_ab_plus_c tests b itself: b == 0 is in its domain)")


A_C = ("pixman_malloc_ab_plus_c: c <= INT32_MAX (its only caller passes 45; for c > INT32_MAX `INT32_MAX - c` wraps, the test passes and "
       "malloc (a*b + c) is called with a wrapped, too small size: latent defect without a caller)")


def alloc_jobs(tier):
    js = []
    for fn, n in (("pixman_malloc_ab", 1), ("pixman_malloc_abc", 2), ("pixman_malloc_ab_plus_c", 3)):
        if tier == "quick" and n != 3:
            continue   # 32-bit division against 64-bit products: 2-12 min each; the helper general_composite_rect uses is in both tiers
        js.append(Job("alloc.%s" % fn, "C04/alloc.c", defines={"VC_FN": n}, kind="proof", functions=[fn],
                      assumptions=[A_DIV] if n != 3 else [A_C], timeout=7200 if n == 2 else 3600, min_props=4,
                      domain="every a, b, c in 2^32, allocator failing or not: non-NULL => requested size == a*b(*c | +c) in 128-bit "
                             "arithmetic, fits int32, first and last byte of the block writable; NULL => allocator failed or one more row would exceed INT32_MAX"))
    if tier != "quick":
        js.append(Job("alloc._pixman_multiply_overflows_int", "C04/alloc.c", defines={"VC_FN": 4}, kind="proof",
                  functions=["_pixman_multiply_overflows_int"], assumptions=[A_DIV], timeout=3600, min_props=2,
                  domain="every a, b in 2^32 (b != 0): FALSE => a*b <= INT32_MAX; TRUE => a*b > INT32_MAX - b"))
    js.append(Job("alloc._pixman_multiply_overflows_int.b16", "C04/alloc.c", defines={"VC_FN": 4, "VC_BMAX": 65535}, kind="bounded",
                  bound="b < 2^16 (every a): the full 32-bit query takes ~10 min and runs in the thorough tier",
                  functions=["_pixman_multiply_overflows_int"], assumptions=[A_DIV], timeout=1800, min_props=2,
                  domain="every a in 2^32, 1 <= b < 2^16"))
    js.append(Job("alloc._pixman_addition_overflows_int", "C04/alloc.c", defines={"VC_FN": 6}, kind="proof",
                  functions=["_pixman_addition_overflows_int"], timeout=300, min_props=1,
                  assumptions=["_pixman_addition_overflows_int: b <= INT32_MAX (its only caller passes 0x1f; for b > INT32_MAX `INT32_MAX - b` wraps and the answer is wrong)"],
                  domain="every a in 2^32, b <= INT32_MAX: FALSE <=> a+b <= INT32_MAX"))
    return js


A_EXT = ["analyze_extent: extents are the non-empty extents of a composite region (x1 < x2, y1 < y2), no coordinate at INT32_MIN/INT32_MAX (call site: region extents minus dest-src offsets, all within +-2^30)",
         "analyze_extent: image size not negative; common.flags has ID_TRANSFORM exactly when the image has no transform matrix (compute_image_info: C09/C14)",
         "analyze_extent: pixman_transform_point replaced by a stub returning arbitrary (ghost) results or FALSE for each of the 8 corner evaluations - covers every matrix; that the results are the matrix product is C11",
         "analyze_extent: four corners inside => every pixel centre of the box inside (affine convexity) is a real-arithmetic lemma, NOT machine checked; checked directly (ghost pixel) for images without transform matrix",
         "analyze_extent: convolution kernels are at least 1x1 (filter_params[0], [1] >= pixman_fixed_1)"]
FILTERS = {0: "nearest/fast", 1: "bilinear/good/best", 2: "convolution", 3: "separable convolution", 4: "unknown filter code"}
F_EXT = ["analyze_extent", "compute_transformed_extents"]


def extent_jobs(tier):
    js = []
    for case, cname in ((0, "identity"), (1, "transformed")):
        for f in (0, 1, 2, 3, 4):
            if tier == "quick" and f in (3,):
                continue
            js.append(Job("extent.%s.filter%d" % (cname, f), "C04/extent.c", defines={"VC_CASE": case, "VC_FILTER": f}, unwind=9,
                          kind="proof", functions=F_EXT, assumptions=A_EXT, timeout=900, min_props=6,
                          domain="%s image, filter %s; every extents box, image size, flag word, kernel size%s: COVER_CLIP_NEAREST => nearest sample "
                                 "floor(c - 1/65536) in [0,size); COVER_CLIP_BILINEAR => taps floor(c - 1/2), +1 in [0,size); TRUE => expanded extents "
                                 "with the filter footprint and 8/65536 slack fit 16.16; flags only gain COVER bits"
                                 % (("BITS image without transform matrix (ghost pixel of the box)", "BITS image with any transform (8 ghost corner results)")[case],
                                    FILTERS[f], ("", ", transform results")[case])))
    js.append(Job("extent.frame", "C04/extent.c", defines={"VC_CASE": 2, "VC_FILTER": 1}, unwind=9, kind="proof", functions=F_EXT,
                  assumptions=A_EXT, timeout=900, min_props=6,
                  domain="every image type, with or without matrix: NULL image => TRUE and flags untouched; flags only gain COVER bits; "
                         "COVER bits only for BITS images; TRUE => expanded extents fit 16 bits and BITS size < 32767"))
    # not a job: -DVC_CHECK=1 with VC_CASE=0, VC_FILTER=2 states "TRUE => expanded extents + kernel footprint fit 16.16" on the identity
    # shortcut; it fails (the shortcut returns before looking at the filter) but no consumer relies on it: for images without matrix the
    # convolution fetcher computes its taps in int, not in 16.16 (see META.not_covered).
    return js


def general_jobs(tier):
    js = []
    if tier == "quick":
        return js   # 10-15 min and ~7 GB per job on the loaded machine (24 KB stack array with symbolic offsets): thorough tier only
    for bpp in (4, 16):
        for path, pname in ((0, "stack"), (1, "heap")):
            js.append(Job("general.buffers.Bpp%d.%s" % (bpp, pname), "C04/general_buffers.c", defines={"VC_BPP": bpp, "VC_PATH": path}, unwind=2, extra_sources=["harness/C04/replay_link.c"],
                          kind="proof", functions=["general_composite_rect", "pixman_malloc_ab_plus_c", "_pixman_multiply_overflows_int"],
                          assumptions=["general_composite_rect: height 1 (the row loop body runs once; the buffers are carved before the loop)",
                                       "general_composite_rect: memset replaced under CBMC by a stub writing the first and last byte of the range (pointer checks); the real memset runs in the native replay",
                                       "general_composite_rect: CBMC evaluates pointer alignment on the offset inside an object (objects are 16-byte aligned in the model): heap misalignment is an explicit input 0..15, the stack buffer's claim is the arithmetic obligation stack_buffer_used_only_if_worst_case_carving_fits + native ASan replay"],
                          timeout=5400, min_props=10,
                          domain="pixel size %d, widths %s (the two width ranges overlap and cover int32), every operator/flag word, heap block at any "
                                 "misalignment 0..15, allocator failing or not: three buffers 16-byte aligned, disjoint, inside stack buffer / allocation "
                                 "(first and last byte of each written by the iterator stubs); stack buffer only if 3*width*Bpp+45 fits; block freed exactly once"
                                 % (bpp, ("from INT32_MIN up to 8 pixels beyond the stack-buffer threshold", "from 8 pixels below the stack-buffer threshold up to INT32_MAX")[path])))
    return js


SAFE = ["--signed-overflow-check", "--div-by-zero-check", "--bounds-check", "--pointer-check", "--pointer-overflow-check"]
A_A1_RIGHT = "a1 row: l->x, r->x <= INT32_MAX - 0x7fff (the complement overflows int32 in the rounding add: C12 job finding.row.a1.far_right)"


def tight_jobs(tier):
    """rasterize_edges_{1,4,8} on an exactly-sized heap image (seed C04-1)"""
    js = []
    th = tier != "quick"
    cfgs = [(4, 0, 8, 0, 0), (4, 0, 8, 1, 0), (4, 0, 8, 0, 1), (8, 0, 8, 0, 0), (1, 0, 64, 0, 0)]
    if th:
        cfgs += [(4, 1, 8, 0, 0), (4, 0, 16, 0, 0), (8, 1, 8, 0, 0), (8, 0, 8, 1, 0), (8, 0, 8, 0, 1), (1, 1, 64, 0, 0), (1, 0, 64, 1, 0), (1, 0, 64, 0, 1)]
    for n, acc, w, neg, case in cfgs:
        nm = "tight.a%d%s.w%d%s%s" % (n, ".acc" if acc else "", w, ".negstride" if neg else "", ".tworows" if case else "")
        js.append(Job(nm, "C04/row_tight.c", defines={"VC_N": n, "VC_ACC": acc, "VC_W": w, "VC_NEG": neg, "VC_CASE": case},
                      unwind=w + 3 if n != 1 else w // 32 + 3, cbmc_flags=SAFE, kind="bounded",
                      bound="image width <= %d pixels (span loops fully unrolled), 2 image rows, %s" % (w, "two consecutive sample rows across the row boundary, vertical edges" if case else "one sample row (t == b)"),
                      functions=["rasterize_edges_%d%s" % (n, " (accessor build)" if acc else "")],
                      domain="pixel storage = one heap object of exactly height*|stride| bytes (%s stride, no padding when width == %d); l->x, r->x any int32 "
                             "(left of, inside, at and beyond the right edge); width 1..%d; %s: every access inside the object (CBMC pointer checks; "
                             "natively ASan), bytes of the other row unchanged" % ("negative" if neg else "positive", w, w,
                             "t on the last sample row of image row 0, b the first of row 1" if case else "t == b any y of either image row (last row included)"),
                      timeout=900, min_props=20, assumptions=([A_A1_RIGHT] if n == 1 else [])))
    return js


# extension modules merged into this property's job list (vdriver.ext_jobs / ext_meta)
EXT = [
    ("C08_scl", None),
    # jobs of other properties whose obligations ARE "no access outside the pixel storage": the vertical clamps of
    # pixman_rasterize_trapezoid / pixman_add_traps (rows handed to rasterize_edges lie inside the image) and the bounds
    # tests of the fast-path separable-convolution fetcher (seeds C04-4, C04-5, C03-5)
    ("C12", lambda n: n.startswith("trap.")),
    ("C08", lambda n: n.startswith("fastpath.sepconv.table")),
]


def jobs(tier):
    js = []
    js += alloc_jobs(tier)
    js += tight_jobs(tier)
    js += extent_jobs(tier)
    js += general_jobs(tier)
    return js + ext_jobs(tier, EXT)


META = {
    "level": "proof",
    "trusted_base": ["harness/C04/extent.c: sample index of a 16.16 coordinate = floor(c - 1/65536) (nearest), floor(c - 1/2) and +1 (bilinear), as written from the property text"],
    "assumptions": [
        "CBMC memory-safety checks (bounds, pointer, overflow, division by zero, conversion) are on in every job; every other property's jobs are C04 obligations for their functions too",
        "affine convexity (four corners inside => every pixel centre of the box inside) is a real-arithmetic lemma, not machine checked",
    ],
    "not_covered": [
        "create_bits / _pixman_bits_image_init stride and size arithmetic (pixman-bits-image.c): no job (64-bit division in _pixman_multiply_overflows_size against a 128-bit product did not finish; DESIGN 1 dead end) - unverified",
        "_pixman_multiply_overflows_size: unverified for the same reason",
        "analyze_extent identity shortcut with a CONVOLUTION filter returns TRUE without the 16.16 footprint test (extent.c -DVC_CHECK=1 shows it); no consumer relies on it",
        "pixman_malloc_ab_plus_c (c > INT32_MAX) and _pixman_addition_overflows_int (b > INT32_MAX) answer wrongly (unsigned wrap of INT32_MAX - c); no caller passes such values",
        "pixman_malloc_ab/_abc/_pixman_multiply_overflows_int/_size divide by b (c) without testing for 0; pixman_image_create_bits with a format code whose bpp field is 0 reaches INT32_MAX / 0 in create_bits",
        "licence USE in the fetchers (C08), rasterizer clamps (C12), glyph boxes (C17): their own properties",
    ],
}
META = ext_meta(META, EXT)
