"""C12 — trapezoid coverage is an exact sample count; abutting shapes tile.

Decomposition (DESIGN.md §5 C12):
  grid.*      sample grid literals == definition == code macros; pixman_sample_ceil_y/floor_y; RENDER_SAMPLES_X
  row.*       one sample row of rasterize_edges_{1,4,8} (plain + accessor build) == saturated sample count, frame
  tile.*      row-level tiling: [lx,mx) + [mx,rx) == [lx,rx) (spec lemma + on the real row function)
  edge.*      RENDER_EDGE_STEP_*, _pixman_edge_multi_init, pixman_edge_step, pixman_edge_init
  trap.*      pixman_rasterize_trapezoid / pixman_add_traps: rows and walkers handed to pixman_rasterize_edges (stubbed)
Jobs whose name starts with `finding.` hold obligations that FAIL on the pinned tree (own job each, see report)."""
from vdriver import Job, ext_jobs, ext_meta

UB = ["--signed-overflow-check", "--div-by-zero-check"]
SAFE = ["--signed-overflow-check", "--div-by-zero-check", "--bounds-check", "--pointer-check"]
ARITH = ["--signed-overflow-check", "--div-by-zero-check", "--conversion-check"]

A_LAYOUT = "alpha layout on a little-endian host (a8 byte x; a4 byte x/2, low nibble first; a1 bit x&31 of word x/32) as written in spec_fixed.h"
A_A1_RIGHT = "a1 row: l->x, r->x <= INT32_MAX - 0x7fff (the complement is job finding.row.a1.far_right)"
A_STEPX = "_pixman_edge_multi_init: |stepx| < 2^14 (the complement overflows int32: job finding.edge.multi_init.steep)"
A_XRANGE = "RENDER_EDGE_STEP_*: |x|, |stepx_small/big| < 2^30 (abscissa stays inside the coordinate type)"
A_SHIFT = "trapezoid shifted by (x_off,y_off) is representable in 16.16 int32; edge heights and (image bottom - edge top) fit int32 (pixman_edge_init computes these differences in int32: overflow outside this domain, see report)"
A_BELOW = "vertical-edge jobs: both edge lines start at or above the first covered row (complement: job finding.trap.edge_starts_below_top)"
A_LOWB = "shifted bottom above the lowest grid row of the coordinate range (complement: job finding.trap.bottom_at_range_min)"


def row_job(n, acc, wmax, unwind, timeout, case=0, name=None, kind="bounded", extra=None):
    nm = name or "row.a%d%s.w%d" % (n, ".acc" if acc else "", wmax)
    d = {"VC_N": n, "VC_ACC": acc, "VC_CASE": case, "VC_WMAX": wmax}
    if extra:
        d.update(extra)
    return Job(nm, "C12/row.c", defines=d, unwind=unwind, cbmc_flags=SAFE, kind=kind,
               bound="image width <= %d pixels (inner span loops fully unrolled), 2 image rows, one sample row (t == b)" % (d.get("VC_WLIM", wmax)),
               functions=["rasterize_edges_%d%s" % (n, " (accessor build)" if acc else "")],
               domain="l->x, r->x any int32; width 1..%d; t any grid row of either image row; all buffer words symbolic; ghost slot anywhere in the buffer incl. guard/spare words" % wmax,
               timeout=timeout, min_props=20,
               assumptions=[A_LAYOUT] + ([A_A1_RIGHT] if n == 1 and case != 1 else []))


# extension modules merged into this property's job list (vdriver.ext_jobs / ext_meta)
EXT = [
    ("C12_msc", None),
]


def jobs(tier):
    th = tier != "quick"
    js = []
    # ---- (1)(2) grid
    for n in (1, 4, 8):
        js.append(Job("grid.lemma.n%d" % n, "C12/grid.c", defines={"VC_N": n, "VC_CASE": 0}, unwind=16, cbmc_flags=ARITH, kind="proof",
                      functions=["N_X_FRAC", "N_Y_FRAC", "STEP_Y_SMALL", "STEP_Y_BIG", "Y_FRAC_FIRST", "Y_FRAC_LAST", "STEP_X_SMALL", "X_FRAC_FIRST"],
                      domain="constants; on-row predicate over all int32 y", timeout=120, min_props=20))
        js.append(Job("grid.ceil_y.n%d" % n, "C12/grid.c", defines={"VC_N": n, "VC_CASE": 1}, cbmc_flags=ARITH, kind="proof",
                      functions=["pixman_sample_ceil_y"], domain="all 2^32 y incl. saturation at the top of the range", timeout=120, min_props=2))
        js.append(Job("grid.floor_y.n%d" % n, "C12/grid.c", defines={"VC_N": n, "VC_CASE": 2}, cbmc_flags=ARITH, kind="proof",
                      functions=["pixman_sample_floor_y"], domain="all y > lowest grid row of the coordinate range", timeout=120, min_props=2,
                      assumptions=["pixman_sample_floor_y: y > INT32_MIN + Y_FRAC_FIRST(n) (complement: job finding.grid.floor_y_saturate)"]))
        js.append(Job("grid.samples_x.n%d" % n, "C12/grid.c", defines={"VC_N": n, "VC_CASE": 4}, cbmc_flags=ARITH, kind="proof",
                      functions=["RENDER_SAMPLES_X"], domain="all 2^32 x", timeout=120, min_props=3))
        js.append(Job("grid.rows_partition.n%d" % n, "C12/grid.c", defines={"VC_N": n, "VC_CASE": 5}, cbmc_flags=ARITH, kind="proof",
                      functions=["pixman_sample_ceil_y", "pixman_sample_floor_y"],
                      domain="all y with a representable grid row on both sides: floor_y(y) is the row just before ceil_y(y)", timeout=120, min_props=2))
    js.append(Job("finding.grid.floor_y_saturate", "C12/grid.c", defines={"VC_N": 4, "VC_CASE": 3}, cbmc_flags=ARITH, kind="proof",
                  functions=["pixman_sample_floor_y"], domain="y <= INT32_MIN + Y_FRAC_FIRST", timeout=120, min_props=2))
    # ---- (3) row coverage
    js.append(row_job(1, 0, 96, 11, 300))
    js.append(row_job(1, 1, 96, 11, 300))
    js.append(row_job(4, 0, 8, 11, 600))
    js.append(row_job(4, 1, 8, 11, 600))
    if th:
        js.append(row_job(8, 0, 8, 11, 3000))      # 165 CPU-s: thorough tier
        js.append(row_job(8, 1, 8, 11, 3000))
        js.append(row_job(4, 0, 24, 25, 3600))
    # (lead) the deferred long-span fill of rasterize_edges_8 across sample rows (seed C12-4): one scenario per job,
    # pixel indices of the span ends fixed, sub-pixel parts symbolic.  (A single query with symbolic pixel indices found the
    # seeded defect but did not finish on the unchanged tree in 40 minutes.)
    SUB = [  # name, K, first grid row, L0, R0, DL, DR, quick
        ("restart_right", 2, 0, 0, 6, 6, 6, True), ("restart_left", 2, 0, 8, 15, -8, -8, True), ("same_span", 2, 0, 2, 12, 0, 0, False),
        ("shrink", 2, 0, 1, 14, 2, -3, True), ("grow", 2, 0, 3, 11, -2, 3, False), ("shift_right", 2, 0, 1, 9, 3, 5, False),
        ("shift_left", 2, 0, 4, 14, -3, -5, False), ("short_after_long", 2, 0, 1, 12, 4, -5, False),
        ("three_rows_restart", 3, 0, 0, 6, 6, 6, False), ("three_rows_shrink", 3, 0, 1, 13, 2, -1, False),
        ("pixel_row_boundary", 2, 14, 1, 12, 0, 0, True), ("full_pixel_row", 15, 0, 1, 12, 0, 0, False),
        ("full_pixel_row_then_next", 16, 0, 1, 12, 0, 0, False)]
    for nm, k, y0k, l0, r0, dl, dr, q in SUB:
        if not (q or th):
            continue
        ex = {"VC_K": k, "VC_Y0K": y0k, "VC_L0": "(%d)" % l0, "VC_R0": "(%d)" % r0, "VC_DL": "(%d)" % dl, "VC_DR": "(%d)" % dr}
        if k >= 15:
            ex["VC_NOFRAC"] = 1      # measured 330 s; with symbolic sub-pixel parts no result in 1200 s
        j = row_job(8, 0, 16, max(19, k + 2), 1200 if k < 15 else 3000, case=3, name="row.a8.subrows.%s" % nm, extra=ex)
        j.cbmc_flags = j.cbmc_flags + ["--slice-formula"]
        j.bound = ("image 16 pixels wide, %d consecutive sample rows from grid row %d of image row 0; span ends at pixels %d / %d moving by %d / %d pixels "
                   "per sample row (pixel indices fixed per job, sub-pixel parts %s)" % (k, y0k, l0, r0, dl, dr, "symbolic" if k < 15 else "zero"))
        j.domain = ("sub-pixel parts of both edges and of both steps symbolic; all buffer words symbolic; ghost slot anywhere in the buffer: pixel of a "
                    "rasterised row: new == sat(old + sum over its sample rows of the sample count), otherwise unchanged")
        js.append(j)
    js.append(row_job(1, 0, 96, 11, 300, case=1, name="finding.row.a1.far_right"))
    # ---- (4) tiling at row level
    js.append(row_job(1, 0, 96, 11, 300, case=2, name="tile.a1.w96"))
    if th:
        js.append(row_job(4, 0, 8, 11, 2400, case=2, name="tile.a4.w8"))
        js.append(row_job(4, 0, 8, 11, 1200, case=2, name="tile.a4.w4", extra={"VC_WLIM": 4}))
    # ---- (5) edges
    for c, nm in ((0, "small"), (1, "big")):
        js.append(Job("edge.render_step_%s" % nm, "C12/edge.c", defines={"VC_CASE": c}, cbmc_flags=ARITH, kind="proof",
                      functions=["RENDER_EDGE_STEP_" + nm.upper()], domain="any edge state with dy>0, -dy<=e<=0, 0<=dx_step<dy, signdx=+-1",
                      timeout=120, min_props=4, assumptions=[A_XRANGE]))
    js.append(Job("edge.multi_init.dy16", "C12/edge.c", defines={"VC_CASE": 2, "VC_DYBITS": 16, "VC_N": 4}, cbmc_flags=ARITH, kind="bounded",
                  bound="dy < 2^16 (reduced operand width of the 64/32 division)", functions=["_pixman_edge_multi_init"],
                  domain="n in {STEP_Y_SMALL(4), STEP_Y_BIG(4)}, 0<=dx<dy<2^16, |stepx|<2^14", timeout=600, min_props=4, assumptions=[A_STEPX]))
    if th:
        for n in (4, 8):
            js.append(Job("edge.multi_init.full.n%d" % n, "C12/edge.c", defines={"VC_CASE": 2, "VC_N": n}, cbmc_flags=ARITH, kind="proof",
                          functions=["_pixman_edge_multi_init"], domain="n in {STEP_Y_SMALL, STEP_Y_BIG}, any 0<=dx<dy<2^31, |stepx|<2^14",
                          timeout=2400, min_props=4, assumptions=[A_STEPX]))
    js.append(Job("finding.edge.multi_init.steep", "C12/edge.c", defines={"VC_CASE": 3, "VC_N": 4}, cbmc_flags=ARITH, kind="proof",
                  functions=["_pixman_edge_multi_init"], domain="|stepx| >= 2^14", timeout=600, min_props=4))
    bits = 12 if th else 10
    for c, nm in ((4, "fwd"), (5, "back")):
        js.append(Job("edge.step.%s" % nm, "C12/edge.c", defines={"VC_CASE": c, "VC_BITS": bits, "VC_OBL": 0}, cbmc_flags=ARITH, kind="bounded",
                      bound="|n|, dy, |stepx| < 2^%d (reduced operand width of the 32x32->64 products)" % bits, functions=["pixman_edge_step"],
                      domain="invariant -dy<=e<=0 kept, carry sign/bound, frame", timeout=1200, min_props=3))
        js.append(Job("finding.edge.step.%s.conserves" % nm, "C12/edge.c", defines={"VC_CASE": c, "VC_BITS": bits, "VC_OBL": 1}, cbmc_flags=ARITH,
                      kind="bounded", bound="|n|, dy, |stepx| < 2^%d" % bits, functions=["pixman_edge_step"],
                      domain="conservation of x*dy + s*e", timeout=600, min_props=1))
    # ---- (6) trapezoid -> rows/walkers
    js.append(Job("trap.rasterize_trapezoid.rows.n4", "C12/trap.c", defines={"VC_CASE": 0, "VC_N": 4, "VC_GEOM": 0}, cbmc_flags=SAFE, kind="proof",
                  functions=["pixman_rasterize_trapezoid", "pixman_line_fixed_edge_init"],
                  domain="any trapezoid with vertical edges, all top/bottom/x/offsets/height<=32767 (rows t..b, validity, walker x)",
                  timeout=2400, min_props=8, assumptions=[A_SHIFT, A_LOWB, A_BELOW]))
    if th:
      js.append(Job("finding.trap.edge_starts_below_top", "C12/trap.c", defines={"VC_CASE": 0, "VC_N": 4, "VC_GEOM": 0, "VC_BELOW": 1}, cbmc_flags=UB,
                  kind="proof", functions=["pixman_rasterize_trapezoid", "pixman_edge_init", "pixman_edge_step"],
                  domain="vertical edge line whose upper end point lies below the first covered row", timeout=2400, min_props=8,
                  assumptions=[A_SHIFT, A_LOWB]))
    js.append(Job("trap.add_traps.rows.n8", "C12/trap.c", defines={"VC_CASE": 1, "VC_N": 8, "VC_GEOM": 0}, cbmc_flags=SAFE, kind="proof",
                  functions=["pixman_add_traps"], domain="one trap with vertical edges, all coordinates/offsets/height<=32767",
                  timeout=2400, min_props=8, assumptions=[A_SHIFT, A_LOWB]))
    if th:
      js.append(Job("trap.rasterize_trapezoid.walkers.n4", "C12/trap.c", defines={"VC_CASE": 0, "VC_N": 4, "VC_GEOM": 1, "VC_BITS": 4, "VC_SHIFT": 13}, cbmc_flags=UB,
                  kind="bounded", bound="coordinates = v*2^13 with |v| < 2^4 (+-2 pixels, 1/8 pixel resolution), x_off in {0,1,-3}, y_off in -1..1", functions=["pixman_rasterize_trapezoid", "pixman_line_fixed_edge_init"],
                  domain="slanted edges: recorded walkers == pixman_edge_init on the y-ordered, shifted end points at row t",
                  timeout=3600, min_props=8, assumptions=[A_SHIFT, A_LOWB]))
    if th:
        js.append(Job("trap.add_traps.walkers.n8", "C12/trap.c", defines={"VC_CASE": 1, "VC_N": 8, "VC_GEOM": 1, "VC_BITS": 4, "VC_SHIFT": 13}, cbmc_flags=UB,
                      kind="bounded", bound="coordinates = v*2^13 with |v| < 2^4 (+-2 pixels, 1/8 pixel resolution), x_off in {0,1,-3}, y_off in -1..1", functions=["pixman_add_traps"],
                      domain="slanted edges", timeout=3600, min_props=8, assumptions=[A_SHIFT, A_LOWB]))
    if th:
      js.append(Job("finding.trap.bottom_at_range_min", "C12/trap.c", defines={"VC_CASE": 0, "VC_N": 8, "VC_GEOM": 0, "VC_LOWB": 1}, cbmc_flags=UB,
                  kind="proof", functions=["pixman_rasterize_trapezoid", "pixman_sample_floor_y"],
                  domain="valid trapezoid whose shifted bottom is <= INT32_MIN + Y_FRAC_FIRST", timeout=2400, min_props=8, assumptions=[A_SHIFT]))
    # ---- (7) (lead) the bounding-box shortcut table of pixman_composite_trapezoids against the real combiners
    for op, fn in (("CLEAR", "combine_clear"), ("SRC", "combine_src_u"), ("DST", "combine_dst"), ("OVER", "combine_over_u"),
                   ("OVER_REVERSE", "combine_over_reverse_u"), ("IN", "combine_in_u"), ("IN_REVERSE", "combine_in_reverse_u"),
                   ("OUT", "combine_out_u"), ("OUT_REVERSE", "combine_out_reverse_u"), ("ATOP", "combine_atop_u"),
                   ("ATOP_REVERSE", "combine_atop_reverse_u"), ("XOR", "combine_xor_u"), ("ADD", "combine_add_u")):
        js.append(Job("zero_src.%s" % op, "C12/zero_src.c", defines={"VC_OPA": op, "VC_FN": fn}, kind="proof", unwind=2,
                      functions=["zero_src_has_no_effect", fn], domain="every (s,d) in 2^64, mask coverage 0", timeout=600, min_props=2))
    # ---- (9) (lead) pixman_composite_trapezoids: which route, and what the mask route hands to create/rasterise/composite
    js.append(Job("composite_trapezoids.routes", "C12/ctrap.c", defines={"VC_ALPHAMAP_OBLIGATION": 1}, unwind=4, kind="bounded",
                  cbmc_flags=["--no-signed-overflow-check", "--no-undefined-shift-check"],
                  bound="one valid trapezoid with vertical edges inside a 200x200 destination",
                  functions=["pixman_composite_trapezoids", "get_trap_extents", "pixman_rasterize_trapezoid"],
                  domain="every Porter-Duff operator, source flag word, mask format a1/a4/a8, destination format, clip / alpha map present or not, "
                         "mask allocation failing or not, offsets", timeout=1800, min_props=5,
                  assumptions=["composite_trapezoids.routes: pixman_rasterize_edges, pixman_image_create_bits, pixman_image_composite, "
                               "pixman_image_unref, _pixman_image_validate are recording stubs",
                               "composite_trapezoids.routes: signed-overflow and shift checks off (pixman_edge_init on arbitrary coordinates is covered, with its assumptions, by the edge.* jobs)"]))
    # ---- (8) (lead) triangle orientation test: exact sign of the cross product (the decomposition itself did not finish)
    for b in ((16,) if tier == "quick" else (16, 20, 24)):
        js.append(Job("triangle.clockwise.b%d" % b, "C12/triangle.c", defines={"VC_CASE": 0, "VC_LIMBITS": b}, kind="bounded",
                      bound="coordinates within +-2^%d (16.16 units); the query at +-2^30 does not finish" % b, functions=["clockwise"],
                      domain="three points: clockwise() == sign of the exact 64-bit cross product", timeout=1800, min_props=1))
    return js + ext_jobs(tier, EXT)


META = {
    "level": "proof",
    "trusted_base": ["spec/spec_fixed.h: sample grid literals (proved equal to their definition in grid.lemma.*), column phase X_FRAC_FIRST-2e for n>1 (DESIGN.md §1), alpha layouts",
                     "hand algebra: differential conservation (x' = x + n*stepx + s*nx, e' = e + n*dx - nx*dy) implies x*dy + s*e advances by n*(stepx*dy + s*dx)"],
    "assumptions": [
        "additivity of abutting trapezoids and commutation with whole-pixel offsets are DERIVED from the per-row contract (coverage = sample count on half-open [lx,rx)), the row partition lemma grid.rows_partition.* and exact edge positions; not checked on whole calls",
        "pixman_rasterize_edges is replaced by a recording stub in trap.*; _pixman_image_validate is a no-op stub",
        "coordinate differences (edge width/height, start row - edge top) fit int32; outside this domain pixman_edge_init overflows (reported)",
    ],
    "not_covered": ["multi-row runs of rasterize_edges_* (row-to-row stepping is covered by edge.render_step_* only; the deferred span fill of rasterize_edges_8 across sub-rows is exercised on one row only)",
                    "pixman_edge_init end to end at full operand width (64/32 division: times out)",
                    "pixman_composite_trapezoids / triangles, get_trap_extents, triangle_to_trapezoids, zero_src_has_no_effect (left to the lead)",
                    "big-endian alpha layouts"],
}
META = ext_meta(META, EXT)
