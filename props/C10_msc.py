"""C10 (extension msc) -- the glue between the float pipeline and the narrow accessors in pixman-access.c
(store_scanline_generic_float, fetch_scanline_generic_float, fetch_pixel_generic_float, fetch_pixel_generic_lossy_32)
and the two scanline converters of pixman-utils.c they rely on (seed C10-3).  Exposes jobs(tier) and the extra meta
dictionary for props/C10.py to merge; standalone: bin/check C10_msc."""
from vdriver import Job

MEM = ["--pointer-check", "--bounds-check", "--memory-leak-check"]
A_NAN = "float channels are not NaN (float -> integer conversion of NaN is undefined; same assumption as utils.float_clamp)"
A_STUB32 = ("image->store_scanline_32 / fetch_scanline_32 / fetch_pixel_32 / fetch_pixel_float are recording stubs (the accessors "
            "behind these pointers are the per-format C10 jobs' subject)")
A_CONV = ("glue.*: pixman_contract_from_float / pixman_expand_to_float replaced at the glue's call sites by their contract (precondition "
          "checked; result arbitrary except the ghost pixel = the real converter on that pixel); the real converters against that "
          "contract: jobs contract.* / expand.*")
A_FMT = "format code of a narrow format: four 4-bit channel sizes <= 8, no size scaling (the formats whose float paths are the generic glue)"
A_X = "destination x within +-2^20 (x + width stays inside int)"


def jobs(tier):
    th = tier != "quick"
    js = []
    js.append(Job("glue.store_scanline_generic_float.w600", "C10/msc_float_glue.c", defines={"VM_FN": 0, "VM_W": 600}, unwind=4,
                  cbmc_flags=MEM, kind="bounded", bound="scanline width 1..600 (a chunk loop of 256 is unrolled three times)",
                  functions=["store_scanline_generic_float", "pixman_malloc_ab"], timeout=1500, min_props=6,
                  assumptions=[A_NAN, A_STUB32, A_CONV, A_X],
                  domain="any x, y, width 1..600, ghost pixel k and ghost destination position: stored exactly once, word for x+k is "
                         "contract(values[k]); failed allocation stores nothing; nothing leaked"))
    js.append(Job("glue.fetch_scanline_generic_float.w600", "C10/msc_float_glue.c", defines={"VM_FN": 1, "VM_W": 600}, unwind=4,
                  cbmc_flags=MEM, kind="bounded", bound="scanline width 1..600", functions=["fetch_scanline_generic_float"],
                  timeout=900, min_props=4, assumptions=[A_STUB32, A_CONV, A_FMT],
                  domain="any x, y, width, format code: narrow fetcher called once for the same run with mask NULL, pixel k of the wide "
                         "result is expand(narrow pixel k, image format), nothing written past 4*width words"))
    js.append(Job("glue.fetch_pixel_generic_float", "C10/msc_float_glue.c", defines={"VM_FN": 2, "VM_W": 4}, unwind=3,
                  cbmc_flags=MEM, kind="proof", functions=["fetch_pixel_generic_float"], timeout=600, min_props=2, assumptions=[A_STUB32, A_FMT],
                  domain="any position, any narrow pixel, any format code: result == pixman_expand_to_float of that pixel with the image's format"))
    js.append(Job("glue.fetch_pixel_generic_lossy_32", "C10/msc_float_glue.c", defines={"VM_FN": 3, "VM_W": 4}, unwind=3,
                  cbmc_flags=MEM, kind="proof", functions=["fetch_pixel_generic_lossy_32"], timeout=600, min_props=2, assumptions=[A_STUB32, A_NAN],
                  domain="any position, any non-NaN wide pixel: result == pixman_contract_from_float of that pixel"))
    for ch in ((0, 3) if not th else (0, 1, 2, 3)):
        js.append(Job("contract.pixman_contract_from_float.w4.ch%d" % ch, "C10/msc_float_glue.c", defines={"VM_FN": 4, "VM_W": 4, "VM_CH": ch},
                      unwind=6, cbmc_flags=MEM, kind="bounded", bound="width 1..4", functions=["pixman_contract_from_float", "float_to_unorm"],
                      timeout=900, min_props=3, assumptions=[A_NAN],
                      domain="ghost pixel k < width <= 4, any non-NaN floats: channel %d of dst[k] == 8-bit narrowing of the source channel "
                             "(>=1: 255, <=0: 0, else floor(256 f)); dst[width] and the source untouched" % ch))
    ew = 4 if th else 2
    js.append(Job("expand.pixman_expand_to_float.inplace.w%d" % ew, "C10/msc_float_glue.c", defines={"VM_FN": 5, "VM_W": ew}, unwind=ew + 2,
                  cbmc_flags=MEM, kind="bounded", bound="width 1..%d" % ew, functions=["pixman_expand_to_float"], timeout=1200, min_props=2,
                  assumptions=[A_FMT],
                  domain="in place (dst == src), ghost pixel k < width <= %d, any narrow format code, any pixels: wide pixel k == expansion of "
                         "narrow pixel k alone; nothing written past the run" % ew))
    fmts = [("r5g6b5", "PIXMAN_r5g6b5"), ("a1r5g5b5", "PIXMAN_a1r5g5b5")] + ([("a4r4g4b4", "PIXMAN_a4r4g4b4"), ("r3g3b2", "PIXMAN_r3g3b2"), ("x8r8g8b8", "PIXMAN_x8r8g8b8"), ("a8", "PIXMAN_a8")] if th else [])
    for nm, code in fmts:
        js.append(Job("readers_agree.generic_float.%s" % nm, "C10/msc_float_glue.c", defines={"VM_FN": 6, "VM_W": 2, "VM_FMT": code}, unwind=4,
                      cbmc_flags=MEM, kind="bounded", bound="scanline width 1..2", functions=["fetch_scanline_generic_float", "fetch_pixel_generic_float", "pixman_expand_to_float"],
                      timeout=900, min_props=6, assumptions=[A_STUB32],
                      domain="format %s, any narrow pixel (a8r8g8b8-positioned, as fetch_*_32 deliver it) at position x+k: scanline reader == single-pixel reader "
                             "(real converters); all-ones channel reads 1.0, zero reads 0.0, absent alpha 1.0, absent colour 0.0" % nm))
    if th:
        js.append(Job("readers_agree.generic_float.anyformat", "C10/msc_float_glue.c", defines={"VM_FN": 6, "VM_W": 2}, unwind=4,
                      cbmc_flags=MEM, kind="bounded", bound="scanline width 1..2", functions=["fetch_scanline_generic_float", "fetch_pixel_generic_float", "pixman_expand_to_float"],
                      timeout=1800, min_props=6, assumptions=[A_STUB32, A_FMT],
                      domain="any narrow format code (symbolic): same obligations"))
    return js


META_EXTRA = {
    "trusted_base": [],
    "assumptions": [A_NAN, A_STUB32, A_CONV, A_X, A_FMT],
    "not_covered": ["dest_write_back_wide / dither_apply_ordered (pixman-bits-image.c): no job",
                    "pixman_contract_from_float / pixman_expand_to_float beyond width 4 (loop unrolled; no route-D loop contract)"],
}
META = {"level": "proof", "trusted_base": [], "assumptions": META_EXTRA["assumptions"], "not_covered": META_EXTRA["not_covered"]}
