/* spec_region.h — specification of "a region is a set of integer points" (C05) and of the
 * canonical y-x banded form (C06), written from the property statements, not from the code.
 *
 * TEMPLATE header: it may be included several times, once per instantiation.  Before each
 * inclusion define
 *     SR_SFX        suffix of the generated names   (32 | 16)
 *     SR_REGION_T   pixman_region32_t | pixman_region16_t
 *     SR_BOX_T      pixman_box32_t    | pixman_box16_t
 *     SR_DATA_T     pixman_region32_data_t | pixman_region16_data_t
 * and it defines (xx = SR_SFX)
 *     sr_in_box_xx  (const box *b, px, py)          point membership in a half-open box
 *     sr_nrects_xx  (const region *r)               number of rectangles of the memory shape
 *     sr_rects_xx   (const region *r)               the rectangle array of the memory shape
 *     sr_member_xx  (const region *r, px, py)       view(r): exists rect containing (px,py)
 *     sr_member_boxes_xx (boxes, n, px, py)         the same for a plain box array
 *     sr_shape_wf_xx (r, empty_sentinel)            memory shape is one of the three legal ones
 *     sr_canon_list_xx (boxes, n)                   clauses 1-4 of C06 on a rectangle list
 *     sr_tight_extents_xx (r)                       clause 5: extents == bounding box
 *     sr_canon_xx   (r, empty_sentinel)             every clause of C06 + memory shape
 *     sr_same_list_xx (a, b)                        identical rectangle lists (what uniqueness of canon gives)
 *
 * The memory shape of a region (pixman.h): `data == NULL` means "exactly one rectangle, which
 * is `extents`"; otherwise `data` heads an array of `numRects` boxes with capacity `size`;
 * `size == 0` marks a static (never freed) block.
 *
 * All loops are plain `for` loops over the rectangle count; a harness bounds them with
 * --unwind N --unwinding-assertions, so a region with more rectangles than the harness
 * anticipated makes the job FAIL, it is never silently truncated.
 *
 * Points are passed as `long` so that the same spec serves int16 and int32 coordinates.
 */
#ifndef SR_CAT
#define SR_CAT_(a, b) a##_##b
#define SR_CAT(a, b) SR_CAT_ (a, b)
#endif
#define SR_(name) SR_CAT (name, SR_SFX)

/* (px,py) is inside the half-open box [x1,x2) x [y1,y2) */
static inline int SR_ (sr_in_box) (const SR_BOX_T *b, long px, long py)
{
    return (long) b->x1 <= px && px < (long) b->x2 && (long) b->y1 <= py && py < (long) b->y2;
}

static inline int SR_ (sr_nrects) (const SR_REGION_T *r)
{
    return r->data ? (int) r->data->numRects : 1;
}

static inline const SR_BOX_T *SR_ (sr_rects) (const SR_REGION_T *r)
{
    return r->data ? (const SR_BOX_T *) (r->data + 1) : &r->extents;
}

/* view of a box array: the union of its boxes */
static inline int SR_ (sr_member_boxes) (const SR_BOX_T *b, int n, long px, long py)
{
    int i, in = 0;
    for (i = 0; i < n; i++)
        if (SR_ (sr_in_box) (&b[i], px, py))
            in = 1;
    return in;
}

/* view(r) */
static inline int SR_ (sr_member) (const SR_REGION_T *r, long px, long py)
{
    return SR_ (sr_member_boxes) (SR_ (sr_rects) (r), SR_ (sr_nrects) (r), px, py);
}

/* memory shape: NULL (one rect) | static empty sentinel | heap block, 2 <= numRects <= size.
 * `empty` is the library's shared empty sentinel if the harness can name it, else NULL
 * (then any static block with 0 rectangles is accepted). */
static inline int SR_ (sr_shape_wf) (const SR_REGION_T *r, const SR_DATA_T *empty)
{
    if (!r->data)
        return 1;
    if (r->data->numRects == 0)
        return r->data->size == 0 && (!empty || r->data == empty);
    return r->data->numRects >= 2 && r->data->numRects <= r->data->size;
}

/* C06 on a rectangle list b[0..n):
 *   (1) every rectangle non-empty
 *   (2) ordered by band (y1), then by x inside the band; a later band starts at or below the
 *       bottom of the previous one
 *   (3) all rectangles of a band share y1 and y2
 *   (4a) rectangles inside a band are separated by gaps (x2 of one < x1 of the next: they
 *        neither overlap nor touch)
 *   (4b) vertically adjacent bands (bottom of one == top of the next) with identical spans
 *        do not exist: they would have been merged */
static inline int SR_ (sr_canon_list) (const SR_BOX_T *b, int n)
{
    int i, j, k, t;

    for (i = 0; i < n; i++)
        if (!(b[i].x1 < b[i].x2 && b[i].y1 < b[i].y2))
            return 0;                                           /* (1) */
    for (i = 0; i + 1 < n; i++)
    {
        if (b[i + 1].y1 == b[i].y1)
        {
            if (b[i + 1].y2 != b[i].y2)
                return 0;                                       /* (3) */
            if (!(b[i].x2 < b[i + 1].x1))
                return 0;                                       /* (2) x order, (4a) gap */
        }
        else if (!(b[i + 1].y1 >= b[i].y2))
            return 0;                                           /* (2) band order, bands disjoint */
    }
    /* (4b): walk the bands [i,j) and the following band [j,k) */
    for (i = 0; i < n; i = j)
    {
        for (j = i + 1; j < n && b[j].y1 == b[i].y1; j++)
            ;
        if (j < n)
        {
            for (k = j + 1; k < n && b[k].y1 == b[j].y1; k++)
                ;
            if (b[i].y2 == b[j].y1 && j - i == k - j)
            {
                int same = 1;
                for (t = 0; t < j - i; t++)
                    if (b[i + t].x1 != b[j + t].x1 || b[i + t].x2 != b[j + t].x2)
                        same = 0;
                if (same)
                    return 0;
            }
        }
    }
    return 1;
}

/* (5) extents are the tight bounding box of the rectangles (n >= 1); computed with min/max
 * over ALL rectangles, not with the first/last shortcut the code uses.  An empty region has
 * no bounding box: its extents must be degenerate (x1 == x2 and y1 == y2). */
static inline int SR_ (sr_tight_extents) (const SR_REGION_T *r)
{
    const SR_BOX_T *b = SR_ (sr_rects) (r);
    int n = SR_ (sr_nrects) (r), i;
    long x1, y1, x2, y2;

    if (n == 0)
        return r->extents.x1 == r->extents.x2 && r->extents.y1 == r->extents.y2;
    x1 = b[0].x1; y1 = b[0].y1; x2 = b[0].x2; y2 = b[0].y2;
    for (i = 1; i < n; i++)
    {
        if (b[i].x1 < x1) x1 = b[i].x1;
        if (b[i].y1 < y1) y1 = b[i].y1;
        if (b[i].x2 > x2) x2 = b[i].x2;
        if (b[i].y2 > y2) y2 = b[i].y2;
    }
    return r->extents.x1 == x1 && r->extents.y1 == y1 && r->extents.x2 == x2 && r->extents.y2 == y2;
}

/* canon(r): every clause of C06 —
 *   memory shape legal; 0 rectangles => the static empty block; 1 rectangle => stored without
 *   a list (data == NULL); rectangle list canonical; extents tight. */
static inline int SR_ (sr_canon) (const SR_REGION_T *r, const SR_DATA_T *empty)
{
    if (!SR_ (sr_shape_wf) (r, empty))
        return 0;
    if (!SR_ (sr_canon_list) (SR_ (sr_rects) (r), SR_ (sr_nrects) (r)))
        return 0;
    return SR_ (sr_tight_extents) (r);
}

/* identical rectangle lists (the observable consequence of "same points" for canonical regions) */
static inline int SR_ (sr_same_list) (const SR_REGION_T *a, const SR_REGION_T *b)
{
    const SR_BOX_T *ba = SR_ (sr_rects) (a), *bb = SR_ (sr_rects) (b);
    int n = SR_ (sr_nrects) (a), i;

    if (n != SR_ (sr_nrects) (b))
        return 0;
    for (i = 0; i < n; i++)
        if (ba[i].x1 != bb[i].x1 || ba[i].y1 != bb[i].y1 || ba[i].x2 != bb[i].x2 || ba[i].y2 != bb[i].y2)
            return 0;
    return 1;
}

#undef SR_
#undef SR_SFX
#undef SR_REGION_T
#undef SR_BOX_T
#undef SR_DATA_T
