/* spec_op.h — the spec of ONE operator, selected at preprocessing time by
 *   VC_OP   (SPOP_* number)   and   VC_MODE (0 no mask, 1 unified, 2 component alpha)
 * so that contract / invariant expressions contain only that operator's formula
 * (an op-dispatching ?: chain made CBMC's symbolic execution 100x slower).
 * Semantically identical to SP_POST/SP_PRE of spec_un8.h with constant op/mode.
 */
#ifndef SPEC_OP_H
#define SPEC_OP_H
#include "spec_un8.h"

#if VC_MODE == 0
#define SPX_MC(m, c) 255u
#elif VC_MODE == 1
#define SPX_MC(m, c) SP_A (m)
#else
#define SPX_MC(m, c) SP_CH (m, c)
#endif

#if VC_OP == SPOP_CLEAR
#define SPX_FA(da) 0u
#define SPX_FB(sa) 0u
#elif VC_OP == SPOP_SRC
#define SPX_FA(da) 255u
#define SPX_FB(sa) 0u
#elif VC_OP == SPOP_DST
#define SPX_FA(da) 0u
#define SPX_FB(sa) 255u
#elif VC_OP == SPOP_OVER
#define SPX_FA(da) 255u
#define SPX_FB(sa) SP_INV (sa)
#elif VC_OP == SPOP_OVER_REVERSE
#define SPX_FA(da) SP_INV (da)
#define SPX_FB(sa) 255u
#elif VC_OP == SPOP_IN
#define SPX_FA(da) SP_U (da)
#define SPX_FB(sa) 0u
#elif VC_OP == SPOP_IN_REVERSE
#define SPX_FA(da) 0u
#define SPX_FB(sa) SP_U (sa)
#elif VC_OP == SPOP_OUT
#define SPX_FA(da) SP_INV (da)
#define SPX_FB(sa) 0u
#elif VC_OP == SPOP_OUT_REVERSE
#define SPX_FA(da) 0u
#define SPX_FB(sa) SP_INV (sa)
#elif VC_OP == SPOP_ATOP
#define SPX_FA(da) SP_U (da)
#define SPX_FB(sa) SP_INV (sa)
#elif VC_OP == SPOP_ATOP_REVERSE
#define SPX_FA(da) SP_INV (da)
#define SPX_FB(sa) SP_U (sa)
#elif VC_OP == SPOP_XOR
#define SPX_FA(da) SP_INV (da)
#define SPX_FB(sa) SP_INV (sa)
#elif VC_OP == SPOP_ADD
#define SPX_FA(da) 255u
#define SPX_FB(sa) 255u
#endif

#if VC_OP <= SPOP_ADD
#define SPX_RESULT(sc, sa, mc, dc, da) \
  SP_SAT (SP_MUL (SP_MS (sc, mc), SPX_FA (da)) + SP_MUL (dc, SPX_FB (SP_MA (sa, mc))))
#define SPX_PRE(s, d) 1
#define SPX_POST(r, s, m, d, c) \
  (SP_CH (r, c) == SPX_RESULT (SP_CH (s, c), SP_A (s), SPX_MC (m, c), SP_CH (d, c), SP_A (d)))
#elif VC_OP == SPOP_MULTIPLY
#define SPX_PRE(s, d) 1
#define SPX_POST(r, s, m, d, c) \
  (SP_CH (r, c) == SP_MULTIPLY (SP_CH (s, c), SP_A (s), SPX_MC (m, c), SP_CH (d, c), SP_A (d)))
#else
#if VC_OP == SPOP_SCREEN
#define SPX_BLEND(d, ad, s, as) ((s) * (ad) + (d) * (as) - (s) * (d))
#elif VC_OP == SPOP_OVERLAY
#define SPX_BLEND(d, ad, s, as) (2 * (d) < (ad) ? 2 * (s) * (d) : (as) * (ad) - 2 * ((ad) - (d)) * ((as) - (s)))
#elif VC_OP == SPOP_DARKEN
#define SPX_BLEND(d, ad, s, as) SP_MIN ((as) * (d), (ad) * (s))
#elif VC_OP == SPOP_LIGHTEN
#define SPX_BLEND(d, ad, s, as) SP_MAX ((as) * (d), (ad) * (s))
#elif VC_OP == SPOP_HARD_LIGHT
#define SPX_BLEND(d, ad, s, as) (2 * (s) < (as) ? 2 * (s) * (d) : (as) * (ad) - 2 * ((ad) - (d)) * ((as) - (s)))
#elif VC_OP == SPOP_DIFFERENCE
#define SPX_BLEND(d, ad, s, as) SP_ABS ((as) * (d) - (ad) * (s))
#elif VC_OP == SPOP_EXCLUSION
#define SPX_BLEND(d, ad, s, as) ((s) * (ad) + (d) * (as) - 2 * (d) * (s))
#endif
#define SPX_PDF_T(s1, sa1, dc, da) \
  ((255 - SP_I (sa1)) * SP_I (dc) + (255 - SP_I (da)) * SP_I (s1) + SPX_BLEND (SP_I (dc), SP_I (da), SP_I (s1), SP_I (sa1)))
#define SPX_PDF_TA(sa1, da) (255 * SP_I (da) + 255 * SP_I (sa1) - SP_I (sa1) * SP_I (da))
/* r == round-half-up(clamp(T,0,255^2)/255).  SP_RND255 is the functional form of that
 * rounding; lemma "lemma.SP_RND255_is_round_to_nearest" (harness/C01/lemmas.c) discharges
 * 510*q <= 2t+255 < 510*q+510 for every t in [0,255^2].  (Stating the relation directly in
 * each postcondition made the PDF queries 10x slower.) */
#define SPX_ROUNDS(r, T) (SP_I (r) == SP_RND255 (SP_CLAMP2 (T)))
#define SPX_PRE(s, d) (SP_PREMUL (s) && SP_PREMUL (d))
#define SPX_POST(r, s, m, d, c) \
  ((c) == 3 ? SPX_ROUNDS (SP_CH (r, 3), SPX_PDF_TA (SP_MA (SP_A (s), SPX_MC (m, 3)), SP_A (d))) \
            : SPX_ROUNDS (SP_CH (r, c), SPX_PDF_T (SP_MS (SP_CH (s, c), SPX_MC (m, c)), SP_MA (SP_A (s), SPX_MC (m, c)), SP_CH (d, c), SP_A (d))))
#endif

#endif
