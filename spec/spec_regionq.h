/* spec_regionq.h — point-set model of a region, for property C07 (queries,
 * translation, bitmap import).  Written from the property text, not from the code.
 *
 * A region is the set of integer points  view(r) = { (x,y) | exists i < n : x1_i <= x < x2_i && y1_i <= y < y2_i }.
 * All comparisons are done on 64-bit values so the same text serves the 16-bit
 * and 32-bit instantiations and translated ("spec") coordinates that leave the
 * representable range.
 *
 * Nothing here depends on the pixman sources except the field names x1,y1,x2,y2
 * of a box; RQ_BOX_T must name the box type before this header is included.
 */
#ifndef SPEC_REGIONQ_H
#define SPEC_REGIONQ_H

typedef long long rq_i64;

/* (px,py) in the half-open box b */
#define RQ_IN_BOX(b, px, py) \
    ((rq_i64) (b).x1 <= (rq_i64) (px) && (rq_i64) (px) < (rq_i64) (b).x2 && \
     (rq_i64) (b).y1 <= (rq_i64) (py) && (rq_i64) (py) < (rq_i64) (b).y2)

#define RQ_BOX_NONEMPTY(b) ((b).x1 < (b).x2 && (b).y1 < (b).y2)
#define RQ_BOX_EQ(a, b) ((a).x1 == (b).x1 && (a).y1 == (b).y1 && (a).x2 == (b).x2 && (a).y2 == (b).y2)

/* point membership in a rect array (loop bounded by the harness' n) */
static inline int
rq_in_rects (const RQ_BOX_T *r, int n, rq_i64 px, rq_i64 py)
{
    int i, in = 0;
    for (i = 0; i < n; i++)
        if (RQ_IN_BOX (r[i], px, py))
            in = 1;
    return in;
}

/* *b is one of the n rectangles and holds the point */
static inline int
rq_is_member_rect_holding (const RQ_BOX_T *r, int n, const RQ_BOX_T *b, rq_i64 px, rq_i64 py)
{
    int i, ok = 0;
    for (i = 0; i < n; i++)
        if (RQ_BOX_EQ (r[i], *b) && RQ_IN_BOX (r[i], px, py))
            ok = 1;
    return ok;
}

/* Canonical y-x banded form of a non-empty rect list (property C06 wording):
 *   every rect non-empty;
 *   consecutive rects are either in the same band (same y1, same y2) and
 *   separated by a gap (x2_i < x1_{i+1}), or the next one starts a new band
 *   at or below the end of the current one (y1_{i+1} >= y2_i);
 *   extents = tight bounding box.
 * coalesced != 0 additionally demands that vertically adjacent bands with
 * identical spans are merged (the full C06 form); the query functions do not
 * need it, so their precondition leaves it out (weaker precondition).
 */
static inline int
rq_canon_rects (const RQ_BOX_T *r, int n, const RQ_BOX_T *ext, int coalesced)
{
    int i, ok = 1;
    rq_i64 minx, maxx;
    if (n < 1)
        return 0;
    minx = r[0].x1;
    maxx = r[0].x2;
    for (i = 0; i < n; i++)
    {
        if (!RQ_BOX_NONEMPTY (r[i]))
            ok = 0;
        if (r[i].x1 < minx) minx = r[i].x1;
        if (r[i].x2 > maxx) maxx = r[i].x2;
        if (i + 1 < n)
        {
            int same_band = r[i + 1].y1 == r[i].y1 && r[i + 1].y2 == r[i].y2 && r[i].x2 < r[i + 1].x1;
            int next_band = r[i + 1].y1 >= r[i].y2;
            if (!same_band && !next_band)
                ok = 0;
        }
    }
    if (!(ext->x1 == minx && ext->x2 == maxx && ext->y1 == r[0].y1 && ext->y2 == r[n - 1].y2))
        ok = 0;
    if (coalesced && ok)
    {
        /* for every band start s (band = [s,e)), next band [e,f): not (touching && same spans) */
        int s = 0;
        while (s < n)
        {
            int e = s, f, k, same;
            while (e < n && r[e].y1 == r[s].y1) e++;
            if (e >= n) break;
            f = e;
            while (f < n && r[f].y1 == r[e].y1) f++;
            same = (f - e == e - s) && r[e].y1 == r[s].y2;
            for (k = 0; same && k < e - s; k++)
                if (r[s + k].x1 != r[e + k].x1 || r[s + k].x2 != r[e + k].x2)
                    same = 0;
            if (same)
                ok = 0;
            s = e;
        }
    }
    return ok;
}

/* ---- contains_rectangle: classification of a non-empty rectangle q against one box b
 * (closed form for the single-rectangle region; intervals, not the code's macros) */
#define RQ_MAX(a, b) ((a) > (b) ? (a) : (b))
#define RQ_MIN(a, b) ((a) < (b) ? (a) : (b))
/* the two sets share a point */
#define RQ_BOX_MEETS(b, q) \
    (RQ_MAX ((rq_i64) (b).x1, (rq_i64) (q).x1) < RQ_MIN ((rq_i64) (b).x2, (rq_i64) (q).x2) && \
     RQ_MAX ((rq_i64) (b).y1, (rq_i64) (q).y1) < RQ_MIN ((rq_i64) (b).y2, (rq_i64) (q).y2))
/* q (non-empty) is a subset of b: its first and last points are in b (boxes are convex) */
#define RQ_BOX_COVERS(b, q) \
    (RQ_IN_BOX (b, (q).x1, (q).y1) && RQ_IN_BOX (b, (rq_i64) (q).x2 - 1, (rq_i64) (q).y2 - 1))

/* number of integer points in a n b (both half-open boxes); < 2^64 for 32-bit coordinates */
typedef unsigned long long rq_u64;
static inline rq_u64
rq_area_meet (const RQ_BOX_T *a, const RQ_BOX_T *b)
{
    rq_i64 w = RQ_MIN ((rq_i64) a->x2, (rq_i64) b->x2) - RQ_MAX ((rq_i64) a->x1, (rq_i64) b->x1);
    rq_i64 h = RQ_MIN ((rq_i64) a->y2, (rq_i64) b->y2) - RQ_MAX ((rq_i64) a->y1, (rq_i64) b->y1);
    if (w <= 0 || h <= 0)
        return 0;
    return (rq_u64) w * (rq_u64) h;
}

/* ---- a1 bitmap: bit (bx,by) of a little-/big-endian a1 image (pixel x of a row
 * lives in 32-bit word x/32; on little-endian hosts bit x%32 counted from the
 * least significant bit, on big-endian hosts from the most significant) */
#ifdef WORDS_BIGENDIAN
#define RQ_A1_BIT(bits, stride, bx, by) (((bits)[(by) * (stride) + ((bx) >> 5)] >> (31 - ((bx) & 31))) & 1u)
#else
#define RQ_A1_BIT(bits, stride, bx, by) (((bits)[(by) * (stride) + ((bx) >> 5)] >> ((bx) & 31)) & 1u)
#endif

#endif
