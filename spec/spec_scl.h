/* spec_scl.h — C04/C08 for the scaled NEAREST / BILINEAR main loops (helper scl).
 *
 * Written from the property statements, not from the code:
 *
 *   C08  destination pixel (k, j) of the composite box samples the source at
 *            (X, Y) = v + (k * ux, j * uy),   v = T (centre of the first pixel), (ux, uy) = diagonal of the scale matrix
 *        NEAREST:   the pixel  (floor (X - e), floor (Y - e))  of the repeated image
 *        BILINEAR:  the four neighbours  x0 = floor (X - 1/2), x0 + 1,  y0 = floor (Y - 1/2), y0 + 1  of the repeated image,
 *                   blended with the 7-bit weights  wx = 7 top bits of frac (X - 1/2), wy likewise:
 *                       row (y)  = P (x0, y) * (128 - wx) + P (x0 + 1, y) * wx
 *                       result   = row (y0) * (128 - wy) + row (y0 + 1) * wy
 *        repeated image P: NONE transparent (0) outside, PAD clamp, NORMAL modulo, COVER = the samples are inside.
 *   C04  every address a scanline function is licensed to read lies inside the pixel storage the caller described
 *        (height * |rowstride| words) or inside an object of the library's own (stack buffers of the main loop).
 *
 * The main loops do not blend themselves: they hand (two row pointers, two vertical weights, a start position and a step)
 * to a scanline function.  What the scanline function makes of them is a weighted sum; two such hand-overs are THE SAME
 * SAMPLE when the sums coincide term by term after dropping terms of weight 0 and merging equal terms:
 *
 *   horizontal pair (l, r, w):   l * (128 - w) + r * w.     w == 0 or l == r  ->  the pair is just "l"
 *   vertical pair ((row1, w1), (row2, w2)):  row1 * w1 + row2 * w2.   a term with weight 0 or an all-zero row vanishes,
 *                                            two terms with the same row merge (weights add), the order is immaterial.
 *
 * (This is how "weight2 == 0 -> use the same row twice with weights 64 + 64" and "row outside a NONE image -> weight 0,
 * row pointer clamped" are the documented blend although rows and weights differ literally.)
 */
#ifndef SPEC_SCL_H
#define SPEC_SCL_H

#include "spec_sample.h"

typedef struct { unsigned l, r; int w; } scl_row;
typedef struct { scl_row r1, r2; int w1, w2; } scl_blend;

static inline scl_row scl_row_canon (unsigned l, unsigned r, int w)
{
    scl_row q;
    q.l = l;
    if (w == 0 || l == r) { q.r = l; q.w = 0; }
    else { q.r = r; q.w = w; }
    return q;
}
static inline int scl_row_eq (scl_row a, scl_row b) { return a.l == b.l && a.r == b.r && a.w == b.w; }
static inline int scl_row_zero (scl_row a) { return a.l == 0 && a.r == 0; }

static inline scl_blend scl_blend_canon (scl_row t, int wt, scl_row b, int wb)
{
    scl_blend q;
    scl_row z; z.l = 0; z.r = 0; z.w = 0;
    if (wt == 0 || scl_row_zero (t)) { t = z; wt = 0; }
    if (wb == 0 || scl_row_zero (b)) { b = z; wb = 0; }
    if (wt != 0 && wb != 0 && scl_row_eq (t, b)) { wt += wb; b = z; wb = 0; }
    if (wt == 0 && wb != 0) { q.r1 = b; q.w1 = wb; q.r2 = z; q.w2 = 0; }
    else { q.r1 = t; q.w1 = wt; q.r2 = b; q.w2 = wb; }
    return q;
}
static inline int scl_blend_eq (scl_blend a, scl_blend b)
{
    return (scl_row_eq (a.r1, b.r1) && a.w1 == b.w1 && scl_row_eq (a.r2, b.r2) && a.w2 == b.w2) ||
           (scl_row_eq (a.r1, b.r2) && a.w1 == b.w2 && scl_row_eq (a.r2, b.r1) && a.w2 == b.w1);
}

#endif
