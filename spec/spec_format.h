/* spec_format.h — C10: pixel formats, written from the property statement and
 * the format *names* only.
 *
 * A format name lists its fields from the most significant bit of the pixel to
 * the least significant one ("a1r5g5b5": bit 15 alpha, bits 14..10 red, 9..5
 * green, 4..0 blue; "x" = unused bits; "b8g8r8a8": blue in bits 31..24 ...).
 * The table below restates, BY HAND, for each format
 *     bpp,  alpha offset,width,  red offset,width,  green offset,width,  blue offset,width,  kind
 * (offset = position of the field's least significant bit inside the pixel,
 * width 0 = field absent).  Nothing here is computed with PIXMAN_FORMAT_*; a
 * separate obligation (harness/C10/lemmas.c) checks that the PIXMAN_<f> codes
 * of pixman.h announce the same bpp and widths.
 *
 * Pixel k of a row (little-endian x86 layout, the only one claimed):
 *   32 bpp: bytes 4k..4k+3, least significant first      16 bpp: bytes 2k, 2k+1
 *   24 bpp: bytes 3k, 3k+1, 3k+2, least significant first  8 bpp: byte k
 *    4 bpp: byte k/2, LOW nibble for even k, high nibble for odd k
 *    1 bpp: byte k/8, bit k%8 (bit k%32 of little-endian word k/32)
 *
 * Canonical 8-bit representation: a8r8g8b8 in a uint32_t (alpha 31..24, red
 * 23..16, green 15..8, blue 7..0).
 *   WIDEN (v, w)  : the w-bit value v bit-replicated to 8 bits = the top 8 bits
 *                   of v's bit pattern repeated for ever = (v * REP_w) >> SH_w
 *   absent alpha  -> 0xff,  absent colour -> 0
 *   NARROW (c, w) : keep the w most significant bits of the 8-bit value c
 */
#ifndef SPEC_FORMAT_H
#define SPEC_FORMAT_H

#define SF_K_RGB   0   /* direct colour / alpha fields */
#define SF_K_COLOR 1   /* palette index, colour palette  */
#define SF_K_GRAY  2   /* palette index, gray palette    */

/*                       bpp   A        R        G        B       kind */
#define SF_a8r8g8b8      32,  24, 8,   16, 8,    8, 8,    0, 8,   SF_K_RGB
#define SF_x8r8g8b8      32,   0, 0,   16, 8,    8, 8,    0, 8,   SF_K_RGB
#define SF_a8b8g8r8      32,  24, 8,    0, 8,    8, 8,   16, 8,   SF_K_RGB
#define SF_x8b8g8r8      32,   0, 0,    0, 8,    8, 8,   16, 8,   SF_K_RGB
#define SF_b8g8r8a8      32,   0, 8,    8, 8,   16, 8,   24, 8,   SF_K_RGB
#define SF_b8g8r8x8      32,   0, 0,    8, 8,   16, 8,   24, 8,   SF_K_RGB
#define SF_r8g8b8a8      32,   0, 8,   24, 8,   16, 8,    8, 8,   SF_K_RGB
#define SF_r8g8b8x8      32,   0, 0,   24, 8,   16, 8,    8, 8,   SF_K_RGB
#define SF_x14r6g6b6     32,   0, 0,   12, 6,    6, 6,    0, 6,   SF_K_RGB
#define SF_r8g8b8        24,   0, 0,   16, 8,    8, 8,    0, 8,   SF_K_RGB
#define SF_b8g8r8        24,   0, 0,    0, 8,    8, 8,   16, 8,   SF_K_RGB
#define SF_r5g6b5        16,   0, 0,   11, 5,    5, 6,    0, 5,   SF_K_RGB
#define SF_b5g6r5        16,   0, 0,    0, 5,    5, 6,   11, 5,   SF_K_RGB
#define SF_a1r5g5b5      16,  15, 1,   10, 5,    5, 5,    0, 5,   SF_K_RGB
#define SF_x1r5g5b5      16,   0, 0,   10, 5,    5, 5,    0, 5,   SF_K_RGB
#define SF_a1b5g5r5      16,  15, 1,    0, 5,    5, 5,   10, 5,   SF_K_RGB
#define SF_x1b5g5r5      16,   0, 0,    0, 5,    5, 5,   10, 5,   SF_K_RGB
#define SF_a4r4g4b4      16,  12, 4,    8, 4,    4, 4,    0, 4,   SF_K_RGB
#define SF_x4r4g4b4      16,   0, 0,    8, 4,    4, 4,    0, 4,   SF_K_RGB
#define SF_a4b4g4r4      16,  12, 4,    0, 4,    4, 4,    8, 4,   SF_K_RGB
#define SF_x4b4g4r4      16,   0, 0,    0, 4,    4, 4,    8, 4,   SF_K_RGB
#define SF_a8             8,   0, 8,    0, 0,    0, 0,    0, 0,   SF_K_RGB
#define SF_r3g3b2         8,   0, 0,    5, 3,    2, 3,    0, 2,   SF_K_RGB
#define SF_b2g3r3         8,   0, 0,    0, 3,    3, 3,    6, 2,   SF_K_RGB
#define SF_a2r2g2b2       8,   6, 2,    4, 2,    2, 2,    0, 2,   SF_K_RGB
#define SF_a2b2g2r2       8,   6, 2,    0, 2,    2, 2,    4, 2,   SF_K_RGB
#define SF_x4a4           8,   0, 4,    0, 0,    0, 0,    0, 0,   SF_K_RGB
#define SF_a4             4,   0, 4,    0, 0,    0, 0,    0, 0,   SF_K_RGB
#define SF_r1g2b1         4,   0, 0,    3, 1,    1, 2,    0, 1,   SF_K_RGB
#define SF_b1g2r1         4,   0, 0,    0, 1,    1, 2,    3, 1,   SF_K_RGB
#define SF_a1r1g1b1       4,   3, 1,    2, 1,    1, 1,    0, 1,   SF_K_RGB
#define SF_a1b1g1r1       4,   3, 1,    0, 1,    1, 1,    2, 1,   SF_K_RGB
#define SF_a1             1,   0, 1,    0, 0,    0, 0,    0, 0,   SF_K_RGB
#define SF_c8             8,   0, 0,    0, 0,    0, 0,    0, 0,   SF_K_COLOR
#define SF_g8             8,   0, 0,    0, 0,    0, 0,    0, 0,   SF_K_GRAY
#define SF_c4             4,   0, 0,    0, 0,    0, 0,    0, 0,   SF_K_COLOR
#define SF_g4             4,   0, 0,    0, 0,    0, 0,    0, 0,   SF_K_GRAY
#define SF_g1             1,   0, 0,    0, 0,    0, 0,    0, 0,   SF_K_GRAY

/* field selection from a table row */
#define SF_S_BPP(bpp, ao, aw, ro, rw, go, gw, bo, bw, k) bpp
#define SF_S_AO(bpp, ao, aw, ro, rw, go, gw, bo, bw, k)  ao
#define SF_S_AW(bpp, ao, aw, ro, rw, go, gw, bo, bw, k)  aw
#define SF_S_RO(bpp, ao, aw, ro, rw, go, gw, bo, bw, k)  ro
#define SF_S_RW(bpp, ao, aw, ro, rw, go, gw, bo, bw, k)  rw
#define SF_S_GO(bpp, ao, aw, ro, rw, go, gw, bo, bw, k)  go
#define SF_S_GW(bpp, ao, aw, ro, rw, go, gw, bo, bw, k)  gw
#define SF_S_BO(bpp, ao, aw, ro, rw, go, gw, bo, bw, k)  bo
#define SF_S_BW(bpp, ao, aw, ro, rw, go, gw, bo, bw, k)  bw
#define SF_S_K(bpp, ao, aw, ro, rw, go, gw, bo, bw, k)   k
#define SF_APPLY(sel, row) SF_APPLY2 (sel, row)
#define SF_APPLY2(sel, ...) sel (__VA_ARGS__)
#define SF_ROW2(f) SF_##f
#define SF_ROW(f) SF_ROW2 (f)

#define SF_BPP(f)  SF_APPLY (SF_S_BPP, SF_ROW (f))
#define SF_AO(f)   SF_APPLY (SF_S_AO, SF_ROW (f))
#define SF_AW(f)   SF_APPLY (SF_S_AW, SF_ROW (f))
#define SF_RO(f)   SF_APPLY (SF_S_RO, SF_ROW (f))
#define SF_RW(f)   SF_APPLY (SF_S_RW, SF_ROW (f))
#define SF_GO(f)   SF_APPLY (SF_S_GO, SF_ROW (f))
#define SF_GW(f)   SF_APPLY (SF_S_GW, SF_ROW (f))
#define SF_BO(f)   SF_APPLY (SF_S_BO, SF_ROW (f))
#define SF_BW(f)   SF_APPLY (SF_S_BW, SF_ROW (f))
#define SF_KIND(f) SF_APPLY (SF_S_K, SF_ROW (f))

/* ---- bit replication, by width (w = 1..8) -------------------------------
 * repeating a w-bit pattern n times is multiplication by 1 + 2^w + 2^2w + ...;
 * n is the smallest count with n*w >= 8, the surplus n*w - 8 low bits are cut. */
#define SF_REP_1 0xffu   /* 8 copies           */
#define SF_SH_1  0
#define SF_REP_2 0x55u   /* 4 copies           */
#define SF_SH_2  0
#define SF_REP_3 0x49u   /* 3 copies = 9 bits  */
#define SF_SH_3  1
#define SF_REP_4 0x11u   /* 2 copies           */
#define SF_SH_4  0
#define SF_REP_5 0x21u   /* 2 copies = 10 bits */
#define SF_SH_5  2
#define SF_REP_6 0x41u   /* 2 copies = 12 bits */
#define SF_SH_6  4
#define SF_REP_7 0x81u   /* 2 copies = 14 bits */
#define SF_SH_7  6
#define SF_REP_8 0x01u
#define SF_SH_8  0
#define SF_CAT2(a, b) a##b
#define SF_CAT(a, b) SF_CAT2 (a, b)
#define SF_MAXV(w) ((1u << (w)) - 1u)
/* WIDEN for a literal width w in 1..8; v must already be < 2^w */
#define SF_WIDEN(v, w) ((((uint32_t) (v)) * SF_CAT (SF_REP_, w)) >> SF_CAT (SF_SH_, w))
/* NARROW for a literal width w in 1..8; c is an 8-bit value */
#define SF_NARROW(c, w) (((uint32_t) (c) & 0xffu) >> (8 - (w)))

/* run-time width versions (lemmas only) */
#define SF_REP_RT(w) ((w) == 1 ? 0xffu : (w) == 2 ? 0x55u : (w) == 3 ? 0x49u : (w) == 4 ? 0x11u : \
                      (w) == 5 ? 0x21u : (w) == 6 ? 0x41u : (w) == 7 ? 0x81u : 1u)
#define SF_SH_RT(w)  ((w) == 3 ? 1 : (w) == 5 ? 2 : (w) == 6 ? 4 : (w) == 7 ? 6 : 0)
#define SF_WIDEN_RT(v, w) ((((uint32_t) (v)) * SF_REP_RT (w)) >> SF_SH_RT (w))

/* ---- per-format, per-channel -------------------------------------------
 * Dispatch on "field absent" (width 0) is done by token pasting on the literal
 * width, so each spec expression contains only the one formula that applies. */
#define SF_FIELD(p, off, w) ((((uint32_t) (p)) >> (off)) & SF_MAXV (w))

/* canonical 8-bit value of one field; def = what an absent field reads as */
#define SF_CH_0(p, off, def) (def)
#define SF_CH_1(p, off, def) SF_WIDEN (SF_FIELD (p, off, 1), 1)
#define SF_CH_2(p, off, def) SF_WIDEN (SF_FIELD (p, off, 2), 2)
#define SF_CH_3(p, off, def) SF_WIDEN (SF_FIELD (p, off, 3), 3)
#define SF_CH_4(p, off, def) SF_WIDEN (SF_FIELD (p, off, 4), 4)
#define SF_CH_5(p, off, def) SF_WIDEN (SF_FIELD (p, off, 5), 5)
#define SF_CH_6(p, off, def) SF_WIDEN (SF_FIELD (p, off, 6), 6)
#define SF_CH_7(p, off, def) SF_WIDEN (SF_FIELD (p, off, 7), 7)
#define SF_CH_8(p, off, def) SF_WIDEN (SF_FIELD (p, off, 8), 8)
#define SF_CH(p, off, w, def) SF_CAT (SF_CH_, w) (p, off, def)

#define SF_WIDEN_A(f, p) SF_CH (p, SF_AO (f), SF_AW (f), 0xffu)   /* absent alpha  -> 1   */
#define SF_WIDEN_R(f, p) SF_CH (p, SF_RO (f), SF_RW (f), 0x00u)   /* absent colour -> 0   */
#define SF_WIDEN_G(f, p) SF_CH (p, SF_GO (f), SF_GW (f), 0x00u)
#define SF_WIDEN_B(f, p) SF_CH (p, SF_BO (f), SF_BW (f), 0x00u)
/* raw pixel p of direct-colour format f  ->  a8r8g8b8 */
#define SF_WIDEN_PIX(f, p) \
    ((SF_WIDEN_A (f, p) << 24) | (SF_WIDEN_R (f, p) << 16) | (SF_WIDEN_G (f, p) << 8) | SF_WIDEN_B (f, p))

/* one field of the stored pixel from the canonical 8-bit channel c */
#define SF_NCH_0(c, off) 0u
#define SF_NCH_1(c, off) (SF_NARROW (c, 1) << (off))
#define SF_NCH_2(c, off) (SF_NARROW (c, 2) << (off))
#define SF_NCH_3(c, off) (SF_NARROW (c, 3) << (off))
#define SF_NCH_4(c, off) (SF_NARROW (c, 4) << (off))
#define SF_NCH_5(c, off) (SF_NARROW (c, 5) << (off))
#define SF_NCH_6(c, off) (SF_NARROW (c, 6) << (off))
#define SF_NCH_7(c, off) (SF_NARROW (c, 7) << (off))
#define SF_NCH_8(c, off) (SF_NARROW (c, 8) << (off))
#define SF_NCH(c, off, w) SF_CAT (SF_NCH_, w) (c, off)
/* a8r8g8b8 value v  ->  the DEFINED bits of the stored pixel of format f */
#define SF_NARROW_PIX(f, v) \
    (SF_NCH ((uint32_t) (v) >> 24, SF_AO (f), SF_AW (f)) | SF_NCH ((uint32_t) (v) >> 16, SF_RO (f), SF_RW (f)) | \
     SF_NCH ((uint32_t) (v) >> 8, SF_GO (f), SF_GW (f)) | SF_NCH ((uint32_t) (v), SF_BO (f), SF_BW (f)))
/* the format's defined bits (fields present) inside the pixel */
#define SF_DEFMASK(f) \
    ((SF_MAXV (SF_AW (f)) << SF_AO (f)) | (SF_MAXV (SF_RW (f)) << SF_RO (f)) | \
     (SF_MAXV (SF_GW (f)) << SF_GO (f)) | (SF_MAXV (SF_BW (f)) << SF_BO (f)))
/* all bits of a pixel (bpp of them) */
#define SF_PIXMASK(f) (SF_BPP (f) == 32 ? 0xffffffffu : ((1u << (SF_BPP (f) & 31)) - 1u))

/* ---- indexed formats: palette P (pixman_indexed_t: rgba[256] and ent[32768]) ----
 * reading pixel p gives P.rgba[p]; writing the a8r8g8b8 value v stores the
 * low bpp bits of P.ent[15-bit key], the key being
 *   gray palette  : 15-bit luma  (153 R + 301 G + 58 B) / 4   (weights sum to 512)
 *   colour palette: x1r5g5b5 presentation of v (top 5 bits of R, G, B) */
#define SF_R8(v) ((((uint32_t) (v)) >> 16) & 0xffu)
#define SF_G8(v) ((((uint32_t) (v)) >> 8) & 0xffu)
#define SF_B8(v) (((uint32_t) (v)) & 0xffu)
#define SF_KEY_GRAY(v)  ((SF_R8 (v) * 153u + SF_G8 (v) * 301u + SF_B8 (v) * 58u) >> 2)
#define SF_KEY_COLOR(v) (((SF_R8 (v) >> 3) << 10) | ((SF_G8 (v) >> 3) << 5) | (SF_B8 (v) >> 3))

/* ---- raw pixel k of a row seen as bytes rb (little-endian layout) ---- */
#define SF_RAW_32(rb, k) ((uint32_t) (rb)[4 * (k)] | ((uint32_t) (rb)[4 * (k) + 1] << 8) | \
                          ((uint32_t) (rb)[4 * (k) + 2] << 16) | ((uint32_t) (rb)[4 * (k) + 3] << 24))
#define SF_RAW_24(rb, k) ((uint32_t) (rb)[3 * (k)] | ((uint32_t) (rb)[3 * (k) + 1] << 8) | ((uint32_t) (rb)[3 * (k) + 2] << 16))
#define SF_RAW_16(rb, k) ((uint32_t) (rb)[2 * (k)] | ((uint32_t) (rb)[2 * (k) + 1] << 8))
#define SF_RAW_8(rb, k)  ((uint32_t) (rb)[(k)])
#define SF_RAW_4(rb, k)  (((k) & 1) ? ((uint32_t) (rb)[(k) >> 1] >> 4) : ((uint32_t) (rb)[(k) >> 1] & 0xfu))
#define SF_RAW_1(rb, k)  (((uint32_t) (rb)[(k) >> 3] >> ((k) & 7)) & 1u)
#define SF_RAW(f, rb, k) SF_CAT (SF_RAW_, SF_BPP (f)) (rb, k)
/* bit number n of the byte array rb (bit n%8 of byte n/8) */
#define SF_BIT(rb, n) (((rb)[(n) >> 3] >> ((n) & 7)) & 1)

#endif
