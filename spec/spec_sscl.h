/* spec_sscl.h — C02 / C08 / C04 (helper sscl): what a SCANLINE FUNCTION of the scaled fast paths computes for its arguments.
 *
 * The scaled main loops (pixman-inlines.h, under contract in props/C08_scl.py) hand a scanline function
 *      bilinear:  (dst, mask, src_top, src_bottom, w, wt, wb, vx, unit_x, max_vx, zero_src)
 *      nearest:   ([mask,] dst, src, w, vx, unit_x, max_vx, fully_transparent_src)
 * and ASSUME of it (contract stub of harness/C08/scl_mainloop.c, written from the property text C08):
 *
 *   pixel i < w is sampled at the 16.16 position   p_i = vx + i * unit_x
 *   nearest:   the sample is src[p_i >> 16]; NORMAL instances keep the position in [-max_vx, 0): after every step
 *              `while (p >= 0) p -= max_vx`
 *   bilinear:  x = p_i >> 16, the four neighbours are src_top[x], src_top[x+1], src_bottom[x], src_bottom[x+1];
 *              the horizontal weight of the right column is wx = the 7 most significant bits of the fraction of p_i,
 *              the left column has 128 - wx; the rows have the weights wt, wb  (0 <= wt, wb < 128, wt + wb <= 128: the
 *              main loop passes (128 - wy, wy), (64, 64) for wy == 0, and 0 for a row outside a NONE image).
 *              Each channel of the sample is the weighted sum of the four neighbours, each weighted by the product of
 *              its two 1-D weights (units 1/2^14), truncated:
 *
 *                  ( tl*(128-wx)*wt + tr*wx*wt + bl*(128-wx)*wb + br*wx*wb ) >> 14
 *
 *              For wt + wb == 128 this is the blend of spec_sample.h (SS_BILIN_CH with the doubled 8-bit weights, >> 16):
 *              4 * (2^14 units) == 2^16 units.  It is written below with the column sums factored out,
 *                  ((tl*wt + bl*wb) * (128-wx) + (tr*wt + br*wb) * wx) >> 14,
 *              which is the same natural number by distributivity (every term < 2^22: no wrap in unsigned arithmetic).
 *   the sample is then combined with dst[i] by the operator of the function (SRC, OVER, OVER through an a8 mask byte /
 *   a solid mask alpha), i.e. by the C01 per-channel equation (spec_op.h) with s = the sample.
 *   Nothing but dst[0..w) is written; nothing but the licensed source words (and mask[0..w)) is read.
 */
#ifndef SPEC_SSCL_H
#define SPEC_SSCL_H

typedef long long sscl_i64;

#define SSCL_POS(vx, ux, k)   ((sscl_i64) (vx) + (sscl_i64) (k) * (sscl_i64) (ux))
#define SSCL_X(p)             ((sscl_i64) (p) >> 16)                       /* floor (p / 65536) */
#define SSCL_W7(p)            ((unsigned) (((sscl_i64) (p) >> 9) & 0x7f))   /* 7 most significant bits of the 16-bit fraction */
#define SSCL_CH(p, c)         (((unsigned) (p) >> (8 * (c))) & 0xffu)

/* one channel of the bilinear sample; tl, tr, bl, br channel values (0..255), wx in [0,127], wt, wb in [0,127], wt + wb <= 128 */
#define SSCL_BILIN_CH(tl, tr, bl, br, wx, wt, wb)                                                         \
    ((((unsigned) (tl) * (unsigned) (wt) + (unsigned) (bl) * (unsigned) (wb)) * (128u - (unsigned) (wx)) + \
      ((unsigned) (tr) * (unsigned) (wt) + (unsigned) (br) * (unsigned) (wb)) * (unsigned) (wx)) >> 14)

/* the documented form (sum of neighbour * product of its 1-D weights), used by the lemma jobs at fixed weights */
#define SSCL_BILIN_CH_DOC(tl, tr, bl, br, wx, wt, wb)                                  \
    (((unsigned) (tl) * ((128u - (unsigned) (wx)) * (unsigned) (wt)) +                 \
      (unsigned) (tr) * ((unsigned) (wx) * (unsigned) (wt)) +                          \
      (unsigned) (bl) * ((128u - (unsigned) (wx)) * (unsigned) (wb)) +                 \
      (unsigned) (br) * ((unsigned) (wx) * (unsigned) (wb))) >> 14)

/* preconditions the main loop establishes for the weights (obligation c08.scanline_weights_* of C08_scl) */
#define SSCL_WEIGHTS_OK(wt, wb)  ((wt) >= 0 && (wb) >= 0 && (wt) < 128 && (wb) < 128 && (wt) + (wb) <= 128)

#endif
