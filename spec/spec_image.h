/* spec_image.h — specification side of the image-object properties (C20, C14, C09 flags).
 *
 * Written from the property statements, not from pixman-image.c:
 *
 *  C09  "A source is treated as opaque only if every sample that can contribute,
 *        including samples outside a non-repeating image, has alpha 1."
 *  C20  ownership invariant of an image (img_wf), field part.
 *  C14  the list of *property* fields (what the user sets / what a fresh replica
 *        would be given) versus *derived* fields (flags, extended_format_code,
 *        accessor pointers, gradient sentinels).
 *
 * Include after the real pixman source (needs pixman-private.h types).
 */
#ifndef SPEC_IMAGE_H
#define SPEC_IMAGE_H

/* ---------------------------------------------------------------- formats
 * Classification of every pixman_format_code_t enumerator of pixman.h, as a literal
 * table (NOT computed with PIXMAN_FORMAT_A/TYPE):
 *   SPI_FC_OPAQUE   no alpha channel, no palette: every stored sample reads alpha 1
 *   SPI_FC_ALPHA    has an alpha channel: samples can have any alpha
 *   SPI_FC_INDEXED  palette formats (c8, g8, ...): the palette entry carries the alpha
 *   SPI_FC_UNKNOWN  not an enumerator
 */
#define SPI_FC_UNKNOWN 0
#define SPI_FC_OPAQUE  1
#define SPI_FC_ALPHA   2
#define SPI_FC_INDEXED 3

static inline int spi_format_class (pixman_format_code_t f)
{
    switch ((uint32_t) f)
    {
    case PIXMAN_x8r8g8b8: case PIXMAN_x8b8g8r8: case PIXMAN_b8g8r8x8: case PIXMAN_r8g8b8x8:
    case PIXMAN_x14r6g6b6: case PIXMAN_x2r10g10b10: case PIXMAN_x2b10g10r10:
    case PIXMAN_r8g8b8: case PIXMAN_b8g8r8:
    case PIXMAN_r5g6b5: case PIXMAN_b5g6r5:
    case PIXMAN_x1r5g5b5: case PIXMAN_x1b5g5r5: case PIXMAN_x4r4g4b4: case PIXMAN_x4b4g4r4:
    case PIXMAN_r3g3b2: case PIXMAN_b2g3r3:
    case PIXMAN_r1g2b1: case PIXMAN_b1g2r1:
    case PIXMAN_yuy2: case PIXMAN_yv12:
    case PIXMAN_rgb_float:
        return SPI_FC_OPAQUE;

    case PIXMAN_a8r8g8b8: case PIXMAN_a8b8g8r8: case PIXMAN_b8g8r8a8: case PIXMAN_r8g8b8a8:
    case PIXMAN_a2r10g10b10: case PIXMAN_a2b10g10r10: case PIXMAN_a8r8g8b8_sRGB:
    case PIXMAN_a1r5g5b5: case PIXMAN_a1b5g5r5: case PIXMAN_a4r4g4b4: case PIXMAN_a4b4g4r4:
    case PIXMAN_a8: case PIXMAN_a2r2g2b2: case PIXMAN_a2b2g2r2: case PIXMAN_x4a4:
    case PIXMAN_a4: case PIXMAN_a1r1g1b1: case PIXMAN_a1b1g1r1: case PIXMAN_a1:
    case PIXMAN_rgba_float:
        return SPI_FC_ALPHA;

    /* c8 == x4c4 and g8 == x4g4 as numbers; listed once */
    case PIXMAN_c8: case PIXMAN_g8: case PIXMAN_c4: case PIXMAN_g4: case PIXMAN_g1:
        return SPI_FC_INDEXED;

    default:
        return SPI_FC_UNKNOWN;
    }
}

static inline int spi_filter_is_convolution (pixman_filter_t f)
{
    return f == PIXMAN_FILTER_CONVOLUTION || f == PIXMAN_FILTER_SEPARABLE_CONVOLUTION;
}

/* "every stored sample of this image contributes alpha 1" (sample level; says nothing about
 * what lies outside the image) */
static inline int spi_samples_opaque (const pixman_image_t *im)
{
    return im->type == BITS
           && spi_format_class (im->bits.format) == SPI_FC_OPAQUE
           && im->common.alpha_map == (bits_image_t *) 0          /* an alpha map replaces the alpha */
           && !spi_filter_is_convolution (im->common.filter)      /* kernel weights need not sum to 1 */
           && !im->common.component_alpha;                        /* as a mask: all four channels count */
}

/* all n colour stops have alpha 1 */
static inline int spi_stops_opaque (const pixman_gradient_stop_t *stops, int n)
{
    int i;
    for (i = 0; i < n; i++)
        if (stops[i].color.alpha != 0xffff)
            return 0;
    return 1;
}

/* SPEC_OPAQUE: "every sample that can contribute, including samples outside a non-repeating
 * image, has alpha 1".  Outside a REPEAT_NONE image everything is transparent black, so
 * repeat != NONE is necessary for every type that has an "outside" (BITS, gradients; for a radial
 * gradient the plane is only covered when one circle contains the other: a < 0). */
static inline int spi_opaque (const pixman_image_t *im)
{
    if (im->common.component_alpha)
        return 0;
    switch (im->type)
    {
    case SOLID:
        return im->solid.color.alpha == 0xffff;
    case BITS:
        return spi_samples_opaque (im) && im->common.repeat != PIXMAN_REPEAT_NONE;
    case RADIAL:
        if (!(im->radial.a < 0))
            return 0;
        /* fall through */
    case LINEAR:
    case CONICAL:
        return im->common.repeat != PIXMAN_REPEAT_NONE
               && spi_stops_opaque (im->gradient.stops, im->gradient.n_stops);
    default:
        return 0;
    }
}

/* ---------------------------------------------------------------- ownership (C20)
 * Field part of img_wf.  The heap part (each owned pointer NULL/static or a live block owned by
 * this image only) is established by the harness that builds the image and re-checked by probing
 * and releasing the blocks (double-free / leak / dereference obligations). */
static inline int spi_wf_alpha_map (const pixman_image_t *im)
{
    const pixman_image_t *am = (const pixman_image_t *) im->common.alpha_map;
    if (!am)
        return 1;
    return am != im                                  /* no cycle */
           && am->type == BITS
           && am->common.ref_count >= 1
           && am->common.alpha_count >= 1            /* counts (at least) this image */
           && am->common.ref_count >= am->common.alpha_count   /* every attachment holds a reference */
           && am->common.alpha_map == (bits_image_t *) 0       /* no chain downwards */
           && im->common.alpha_count == 0;           /* no chain upwards: an image used as a map has none itself */
}

static inline int spi_wf_fields (const pixman_image_t *im)
{
    return im->common.ref_count >= 1
           && im->common.alpha_count >= 0
           && im->common.ref_count >= im->common.alpha_count
           && spi_wf_alpha_map (im);
}

#endif
