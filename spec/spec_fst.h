/* spec_fst.h — C02 (extension `fst'): the per-channel statement "an implementation's stored pixel is the C01 result",
 * for RAW pixels of arbitrary direct-colour formats, in a form that can be used inside __CPROVER_ensures / loop
 * invariants (expression macros only, every raw operand occurs at most twice).
 *
 *     field_c (r)  ==  NARROW_w ( OP_c ( WIDEN (s), WIDEN (m), WIDEN (d) ) )
 *
 *   r, d  raw destination pixel after / before (format df)        s  raw source pixel (format sf; solid: a8r8g8b8)
 *   m     raw mask pixel (format mf)                              c  = VC_CH (0=B 1=G 2=R 3=A), compile-time
 *   OP, mask mode: VC_OP / VC_MODE of spec_op.h;  WIDEN / NARROW / field table: spec_format.h
 * Nothing here is new specification: it composes spec_op.h (C01) with spec_format.h (C10).
 */
#ifndef SPEC_FST_H
#define SPEC_FST_H
#include "spec_op.h"
#include "spec_format.h"

#if VC_CH == 0
#define FST_OFF(f) SF_BO (f)
#define FST_WID(f) SF_BW (f)
#define FST_WIDEN_C(f, p) SF_WIDEN_B (f, p)
#elif VC_CH == 1
#define FST_OFF(f) SF_GO (f)
#define FST_WID(f) SF_GW (f)
#define FST_WIDEN_C(f, p) SF_WIDEN_G (f, p)
#elif VC_CH == 2
#define FST_OFF(f) SF_RO (f)
#define FST_WID(f) SF_RW (f)
#define FST_WIDEN_C(f, p) SF_WIDEN_R (f, p)
#elif VC_CH == 3
#define FST_OFF(f) SF_AO (f)
#define FST_WID(f) SF_AW (f)
#define FST_WIDEN_C(f, p) SF_WIDEN_A (f, p)
#endif

/* the mask value that applies to channel c */
#if VC_MODE == 0
#define FST_MC(mf, m) 255u
#elif VC_MODE == 1
#define FST_MC(mf, m) SF_WIDEN_A (mf, m)
#else
#define FST_MC(mf, m) FST_WIDEN_C (mf, m)
#endif

#ifdef FST_WID
/* canonical 8-bit result of channel c */
#define FST_RESULT(sf, s, mf, m, df, d) \
    SPX_RESULT (FST_WIDEN_C (sf, s), SF_WIDEN_A (sf, s), FST_MC (mf, m), FST_WIDEN_C (df, d), SF_WIDEN_A (df, d))
/* the stored field of channel c is the narrowed result */
#define FST_POST(sf, s, mf, m, df, d, r) \
    (SF_FIELD (r, FST_OFF (df), FST_WID (df)) == SF_NARROW (FST_RESULT (sf, s, mf, m, df, d), FST_WID (df)))
#endif

/* "pixbuf" requests (source x8b8g8r8 and mask a8r8g8b8 on the SAME pixel buffer, i.e. a non-premultiplied a8b8g8r8 pixbuf) need
 * no formula of their own: they are FST_POST (x8b8g8r8, p, a8r8g8b8, p, df, d, r) with VC_OP = OVER, VC_MODE = 1. */

#endif
