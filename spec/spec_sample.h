/* spec_sample.h — C08: WHERE and HOW a transformed source is sampled.
 *
 * Written from the property statement and pixman/rounding.txt, not from the code:
 *
 *   - pixels are located midway between integers (sample offset o = 0.5); ties go north-west.
 *   - NEAREST:      index = floor (x - e),  e = 1/65536                         (rounding.txt, "NEAREST filtering")
 *   - BILINEAR:     the four neighbours of x: left/top index = floor (x - 0.5), the other one + 1;
 *                   the fractional distance frac (x - 0.5) is reduced to its 7 most significant bits
 *                   (property: "7-bit fractional weights"); the weights of the 8-bit blend are those
 *                   doubled (2*w7 of 256) and the blend is truncated:
 *                       (tl*(256-dx)*(256-dy) + tr*dx*(256-dy) + bl*(256-dx)*dy + br*dx*dy) >> 16
 *   - CONVOLUTION:  first pixel k = floor (x - (width - 1)/2 - e), taps k .. k+width-1 in matrix order
 *                   (rounding.txt, "CONVOLUTION filtering");  each channel of the result is the
 *                   SIGNED sum of coefficient*channel in 16.16, rounded half up to an integer and
 *                   clamped to [0, 255].
 *   - SEPARABLE:    x is first rounded to the middle of one of n = 2^bits sub-pixel phases, phase index
 *                   = floor (frac (x) * n); then k as above for the rounded x; the tap weight is the
 *                   product of the x and y vector entries, rounded half up to 16.16.
 *   - repeat:       NONE   outside the image is transparent (0)
 *                   NORMAL modulo:  0 <= r < size,  r == c (mod size)
 *                   PAD    clamp to [0, size-1]
 *                   REFLECT mirror with period 2*size:  m = c mod 2*size;  r = m < size ? m : 2*size-1-m
 *   - projective:   the sample position is the signed quotient trunc (x*65536 / w), same for y.
 *
 * All arithmetic in 64 bits so that no spec expression can overflow for 32-bit operands.
 * Expression macros (usable in contracts / loop invariants) + a few inline functions for harness use.
 */
#ifndef SPEC_SAMPLE_H
#define SPEC_SAMPLE_H

typedef long long ss_i64;

#define SS_ONE              65536LL
#define SS_HALF             32768LL
#define SS_E                1LL
#define SS_FLOOR_INT(v)     ((ss_i64) (v) >> 16)             /* floor (v / 65536) */
#define SS_FRAC(v)          ((ss_i64) (v) & 0xffffLL)        /* v - 65536 * floor (v / 65536) */

/* repeat modes: the values of the public enum pixman_repeat_t (pixman.h, API) */
#define SS_NONE     0
#define SS_NORMAL   1
#define SS_PAD      2
#define SS_REFLECT  3

/* ---- repeat maps (relational: "r is THE image of c") ---- */
#define SS_INSIDE(c, size)           ((ss_i64) (c) >= 0 && (ss_i64) (c) < (ss_i64) (size))
#define SS_IS_NORMAL(c, size, r)     (SS_INSIDE (r, size) && ((ss_i64) (c) - (ss_i64) (r)) % (ss_i64) (size) == 0)
#define SS_PAD_OF(c, size)           ((ss_i64) (c) < 0 ? 0LL : (ss_i64) (c) >= (ss_i64) (size) ? (ss_i64) (size) - 1 : (ss_i64) (c))
#define SS_IS_PAD(c, size, r)        ((ss_i64) (r) == SS_PAD_OF (c, size))
/* mirror: r == m or r == 2*size-1-m with m == c (mod 2*size)  <=>  c - r == 0 or c + r + 1 == 0 (mod 2*size) */
#define SS_IS_REFLECT(c, size, r)    (SS_INSIDE (r, size) &&                                             \
                                      (((ss_i64) (c) - (ss_i64) (r)) % (2 * (ss_i64) (size)) == 0 ||     \
                                       ((ss_i64) (c) + (ss_i64) (r) + 1) % (2 * (ss_i64) (size)) == 0))
/* dispatch on a compile-time mode */
#define SS_IS_REPEAT(mode, c, size, r)                                  \
    ((mode) == SS_NORMAL ? SS_IS_NORMAL (c, size, r) :                  \
     (mode) == SS_PAD ? SS_IS_PAD (c, size, r) :                        \
     (mode) == SS_REFLECT ? SS_IS_REFLECT (c, size, r) :                \
     (SS_INSIDE (c, size) && (ss_i64) (r) == (ss_i64) (c)))

/* functional form (harness use; mathematical modulo) */
static inline ss_i64 ss_mod (ss_i64 a, ss_i64 n)
{
    ss_i64 m = a % n;
    return m < 0 ? m + n : m;
}
static inline ss_i64 ss_repeat_map (int mode, ss_i64 c, ss_i64 size)
{
    if (mode == SS_NORMAL)
        return ss_mod (c, size);
    if (mode == SS_PAD)
        return SS_PAD_OF (c, size);
    if (mode == SS_REFLECT)
    {
        ss_i64 m = ss_mod (c, 2 * size);
        return m < size ? m : 2 * size - 1 - m;
    }
    return c;   /* NONE: identity; outside means transparent (SS_INSIDE) */
}

/* ---- NEAREST ---- */
#define SS_NEAREST_INDEX(x)          SS_FLOOR_INT ((ss_i64) (x) - SS_E)

/* ---- BILINEAR ---- */
#define SS_BILIN_INDEX(x)            SS_FLOOR_INT ((ss_i64) (x) - SS_HALF)
#define SS_BILIN_W7(x)               (SS_FRAC ((ss_i64) (x) - SS_HALF) >> 9)          /* 7 most significant bits of the 16-bit fraction */
/* channel ch (0 = blue .. 3 = alpha) of an a8r8g8b8 word */
#define SS_CH(p, ch)                 ((ss_i64) (((p) >> (8 * (ch))) & 0xff))
/* blend of one channel: sum of neighbour * weight, the weight of a neighbour being the product of its 1-D weights
 * (dx = 2*wx of 256 for the right column, 256 - dx for the left one; same for rows), truncated to 8 bits.
 * wx, wy are the 7-bit weights (0..127), channel values 0..255: every term is < 2^24 and the sum < 2^26, so 32-bit
 * unsigned arithmetic is exact. */
#define SS_BILIN_DX(w)               ((unsigned) (w) << 1)
#define SS_BILIN_CH(tl, tr, bl, br, wx, wy)                                                    \
    ((ss_i64) (((unsigned) (tl) * ((256u - SS_BILIN_DX (wx)) * (256u - SS_BILIN_DX (wy))) +    \
                (unsigned) (tr) * (SS_BILIN_DX (wx) * (256u - SS_BILIN_DX (wy))) +             \
                (unsigned) (bl) * ((256u - SS_BILIN_DX (wx)) * SS_BILIN_DX (wy)) +             \
                (unsigned) (br) * (SS_BILIN_DX (wx) * SS_BILIN_DX (wy))) >> 16))

/* ---- CONVOLUTION ---- */
/* first tap for a kernel of `n` (integer) taps: floor (x - (n-1)/2 - e); (n-1)*65536/2 is exact */
#define SS_CONV_FIRST(x, n)          SS_FLOOR_INT ((ss_i64) (x) - (((ss_i64) (n) - 1) * SS_ONE) / 2 - SS_E)
/* signed 16.16 total -> channel value: round half up, clamp */
#define SS_ROUND_INT(t)              SS_FLOOR_INT ((ss_i64) (t) + SS_HALF)
#define SS_CLAMP8(v)                 ((ss_i64) (v) < 0 ? 0LL : (ss_i64) (v) > 255 ? 255LL : (ss_i64) (v))
#define SS_CONV_CH(total)            SS_CLAMP8 (SS_ROUND_INT (total))

/* ---- SEPARABLE CONVOLUTION ---- */
/* x rounded to the middle of its phase (2^bits phases per pixel) */
#define SS_PHASE_W(bits)             (SS_ONE >> (bits))                                /* width of one phase */
#define SS_PHASE_INDEX(x, bits)      (SS_FRAC (x) / SS_PHASE_W (bits))                  /* floor (frac (x) * 2^bits) */
#define SS_PHASE_ROUND(x, bits)      ((ss_i64) (x) - SS_FRAC (x) % SS_PHASE_W (bits) + SS_PHASE_W (bits) / 2)
#define SS_SEP_WEIGHT(fx, fy)        SS_FLOOR_INT ((ss_i64) (fy) * (ss_i64) (fx) + SS_HALF)

/* ---- projective ---- */
/* signed quotient truncated towards zero (C '/' on signed 64-bit operands is exactly that) */
#define SS_PROJ(x, w)                (((ss_i64) (x) * SS_ONE) / (ss_i64) (w))

#endif
