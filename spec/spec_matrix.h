/* spec_matrix.h — C11: 16.16 / 48.16 fixed-point transform arithmetic.
 *
 * Written from the property statement ("the rational matrix-vector product
 * ... rounded to the nearest 1/65536 ... FALSE instead of a wrapped value"),
 * not from pixman-matrix.c.  Expression macros (usable in harnesses compiled
 * by goto-cc and by gcc for the native replay; x86-64: __int128 exists).
 *
 * Units: a 16.16 value m stands for m/2^16, a 48.16 value v for v/2^16.
 * The product of a matrix row and a vector is  P = sum m_i * v_i   (units 2^-32),
 * the 48.16 result is round(P / 2^16).
 *
 * Split form (DESIGN.md §5 C11): with v = 2^16*hi(v) + lo(v), 0 <= lo(v) < 2^16,
 *      P = 2^16 * H + L,   H = sum m_i*hi(v_i),   L = sum m_i*lo(v_i)
 * (distributivity: lemma job, bounded) and
 *      round_half_up(P / 2^16) = H + floor((L + 2^15) / 2^16)
 * (lemma job, proof).
 */
#ifndef SPEC_MATRIX_H
#define SPEC_MATRIX_H

#include <stdint.h>

typedef __int128 sm_i128;
typedef unsigned __int128 sm_u128;

#define SM_ONE          65536
#define SM_INT32_MIN    (-2147483647LL - 1)
#define SM_INT32_MAX    2147483647LL
#define SM_FITS32(x)    ((x) >= SM_INT32_MIN && (x) <= SM_INT32_MAX)
#define SM_FITS16(x)    ((x) >= -32768 && (x) <= 32767)

/* 31.16 input precondition of the 48.16 entry points (their documented domain) */
#define SM_IN_31_16(v)  ((v) >= -((int64_t) 1 << 46) && (v) < ((int64_t) 1 << 46))

/* operand split of a 48.16 value: hi = floor(v / 2^16), lo = v mod 2^16 */
#define SM_HI(v)        ((int64_t) (v) >> 16)
#define SM_LO(v)        ((int64_t) (v) & 0xFFFF)

/* split sums of one row (a b c) with the vector (x y w) */
#define SM_H3(a, b, c, x, y, w) \
    ((int64_t) (a) * SM_HI (x) + (int64_t) (b) * SM_HI (y) + (int64_t) (c) * SM_HI (w))
#define SM_L3(a, b, c, x, y, w) \
    ((int64_t) (a) * SM_LO (x) + (int64_t) (b) * SM_LO (y) + (int64_t) (c) * SM_LO (w))

/* round-half-up of (2^16*H + L) / 2^16 */
#define SM_RND(H, L)    ((H) + (((L) + 0x8000) >> 16))

/* the same value specified without shifting negative numbers: R is the
 * round-half-up quotient iff 2^16*R <= P + 2^15 < 2^16*(R+1)  (128-bit, exact) */
#define SM_IS_RND_HALF_UP(R, P) \
    ((sm_i128) 65536 * (R) <= (sm_i128) (P) + 32768 && (sm_i128) (P) + 32768 < (sm_i128) 65536 * ((sm_i128) (R) + 1))

/* exact 128-bit row product, units 2^-32 */
#define SM_P3(a, b, c, x, y, w) \
    ((sm_i128) (a) * (x) + (sm_i128) (b) * (y) + (sm_i128) (c) * (w))

/* one term of pixman_transform_multiply as the code documents it (per-term rounding) */
#define SM_MULTERM(l, r)  ((((int64_t) (l) * (int64_t) (r)) + 0x8000) >> 16)

#define SM_ABS128(x)    ((x) < 0 ? -(sm_i128) (x) : (sm_i128) (x))

#endif
