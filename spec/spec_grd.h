/* spec_grd.h — C13 (extension `grd`): specification text for the gradient walker, the linear projection
 * parameter and the radial two-circle equation.  Written from the property statement (properties.jsonl C13)
 * and the documents it names (Render / PDF 32000-1 8.7.4.5.4 type 3 shadings), not from the code:
 *
 *   "... locating the gradient parameter t (projection onto p1-p2; the larger admissible root of the
 *    two-circle equation as for PDF type 3 shadings; ...), applying the repeat mode to t, interpolating the
 *    two neighbouring stops linearly in non-premultiplied space and premultiplying, within one 8-bit step.
 *    Pixels with no admissible t are transparent ..."
 *
 * 1. Stop table.  E[0..n+1] / C[0..n+1] = sentinel, the n user stops, sentinel (16.16 positions, 16-bit colours):
 *        NONE     E[0] = INT32_MIN, transparent        E[n+1] = INT32_MAX, transparent
 *        PAD      E[0] = INT32_MIN, colour of stop 1   E[n+1] = INT32_MAX, colour of stop n
 *        NORMAL   E[0] = E[n] - 1.0, colour of stop n  E[n+1] = E[1] + 1.0, colour of stop 1
 *        REFLECT  E[0] = -E[1], colour of stop 1       E[n+1] = 2.0 - E[n], colour of stop n
 * 2. Folding (integers, 16.16):  NONE, PAD: u = t.  NORMAL: u = t mod 1.0.  REFLECT: u = t mod 2.0, and
 *    u := 2.0 - u ("mirrored") when u >= 1.0.
 * 3. Segment.  The colour function c(u) is defined on HALF-OPEN intervals: the segment of u is the unique
 *    pair of neighbouring entries (k-1, k) with E[k-1] <= u < E[k].  Hence a parameter exactly on a stop position
 *    takes the segment to its right: at a hard stop (two stops at one position) the later stop's colour; at
 *    u == 1.0 with a last stop at 1.0: NONE -> transparent, NORMAL -> wraps to the first stop (u folds to 0).
 *    (REFLECT, u == 1.0, last stop at 1.0: no such k; c = colour of the last stop.)
 * 4. Colour.  Per channel in non-premultiplied space, ch in {alpha, red, green, blue}, 16-bit values v:
 *        c_ch(u) = v_ch[k-1] + (v_ch[k] - v_ch[k-1]) * (u - E[k-1]) / (E[k] - E[k-1])
 *    (constant when an end of the segment is the INT32_MIN / INT32_MAX sentinel; NONE: transparent outside the
 *    user stops).  Result premultiplied:   alpha = c_a / 65535,   colour = (c_a / 65535) * (c_ch / 65535),
 *    as 8-bit values * 255, to within one 8-bit step (1.0 of 255; 1/255 for the float walker).
 */
#ifndef SPEC_GRD_H
#define SPEC_GRD_H

#define SG_ONE 65536L
#define SG_I32_MIN (-2147483647L - 1)
#define SG_I32_MAX 2147483647L

/* folding; *mirrored set for the odd periods of REFLECT */
static long sg_fold (int repeat, long t, int *mirrored)
{
    long u;
    *mirrored = 0;
    if (repeat == 1)
        u = ((t % SG_ONE) + SG_ONE) % SG_ONE;
    else if (repeat == 3)
    {
        u = ((t % (2 * SG_ONE)) + 2 * SG_ONE) % (2 * SG_ONE);
        if (u >= SG_ONE) { u = 2 * SG_ONE - u; *mirrored = 1; }
    }
    else
        u = t;
    return u;
}

/* sentinel table: fills E[0], E[n+1] from E[1..n] */
static void sg_sentinel_positions (int repeat, long *E, int n)
{
    if (repeat == 1)      { E[0] = E[n] - SG_ONE; E[n + 1] = E[1] + SG_ONE; }
    else if (repeat == 3) { E[0] = -E[1];         E[n + 1] = 2 * SG_ONE - E[n]; }
    else                  { E[0] = SG_I32_MIN;    E[n + 1] = SG_I32_MAX; }
}

/* sentinel colours (one channel): V[0], V[n+1] from V[1..n] */
static void sg_sentinel_channel (int repeat, long *V, int n)
{
    if (repeat == 1)      { V[0] = V[n]; V[n + 1] = V[1]; }
    else if (repeat == 2 || repeat == 3) { V[0] = V[1]; V[n + 1] = V[n]; }
    else                  { V[0] = 0;    V[n + 1] = 0; }
}

/* c_ch(u) in [0, 65535] as an exact fraction *num / *den (den > 0), for the segment (k-1, k) found by the caller;
 * k == n+2 means "no k" (item 3).  Linear interpolation written with the two non-negative weights
 *        c = (v[k-1] * (hi - u) + v[k] * (u - lo)) / (hi - lo)
 * Positions are given in GRID UNITS (the harness divides by its grid step) so that the weights are < 64 and the
 * whole specification is small unsigned integer arithmetic (zero-extended operands: cheap for the SAT back end).
 * *ok is cleared if a weight does not fit (the harness asserts it: a too-wide grid is a harness error, not a verdict). */
static void sg_channel_at (int repeat, const long *E, const long *V, int n, int k, long u,
                           unsigned *num, unsigned *den, int *ok)
{
    long lo, hi;
    unsigned wl, wr;
    *den = 1;
    if (k > n + 1)                                  { *num = (unsigned) V[n] & 0xffff; return; }
    lo = E[k - 1]; hi = E[k];
    if (repeat == 0 && (k == 1 || k == n + 1))      { *num = 0; return; }
    if (lo == SG_I32_MIN)                           { *num = (unsigned) V[k] & 0xffff; return; }
    if (hi == SG_I32_MAX)                           { *num = (unsigned) V[k - 1] & 0xffff; return; }
    if (hi - lo < 1 || hi - lo > 63 || u < lo || u > hi)
        *ok = 0;
    wl = (unsigned) (hi - u) & 0x3f;
    wr = (unsigned) (u - lo) & 0x3f;
    *den = (unsigned) (hi - lo) & 0x3f;
    *num = ((unsigned) V[k - 1] & 0xffff) * wl + ((unsigned) V[k] & 0xffff) * wr;
}

#endif
