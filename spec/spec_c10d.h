/* spec_c10d.h — C10, unbounded scanline contracts (route D): the per-pixel statements of
 * fetch_scanline_<f> / store_scanline_<f> as EXPRESSION macros over ghost values, so that the same text
 * is the function contract's ensures clause and (with i in place of width) the loop invariant.
 *
 * Written from the property statement and spec_format.h (literal field table, WIDEN = bit replication,
 * NARROW = top bits, little-endian pixel layout); nothing is taken from the code under check.
 *
 * No __CPROVER_old / __CPROVER_loop_entry anywhere: "the value before the call" of a memory cell is a
 * free ghost variable G constrained in the precondition by  cell == G  (a let-binding), and the
 * post-state is compared with G.
 *
 * Ghosts (globals of the harness; goto-instrument --dfcc makes statics nondeterministic):
 *   g_k      pixel index inside the scanline, 0 <= g_k < width
 *   g_fb     bit number inside the pixel memory (bit g_fb % 8 of byte g_fb / 8), anywhere in it (rows before row y too)
 *   g_fold   the byte g_fb / 8 of the pixel memory before the call
 *   g_rowoff byte offset of row y in the pixel memory
 *   g_buf    the output pointer before the call (fetch advances `buffer`)
 *   g_guard  the word after the output before the call
 *   g_rgba   image->indexed->rgba  (indexed formats, read side)
 *   g_ent    image->indexed->ent   (indexed formats, write side)
 */
#ifndef SPEC_C10D_H
#define SPEC_C10D_H
#include "spec_format.h"

/* ---- fetch: out == canonical a8r8g8b8 of raw pixel p ------------------------------------------ */
#define SD_FETCH_0(f, p, rgba) SF_WIDEN_PIX (f, p)          /* direct colour: bit replication, absent alpha 0xff */
#define SD_FETCH_1(f, p, rgba) ((rgba)[(p)])                /* colour palette */
#define SD_FETCH_2(f, p, rgba) ((rgba)[(p)])                /* gray palette   */
#define SD_FETCH(f, p, rgba)   SF_CAT (SD_FETCH_, SF_KIND (f)) (f, p, rgba)
/* pixel k of the scanline that starts at pixel x of the row bytes rb */
#define SD_FETCH_POST(f, out, rb, x, k, rgba) ((out) == SD_FETCH (f, SF_RAW (f, rb, (x) + (k)), rgba))

/* ---- store: the raw pixel p now in memory is what value v must be stored as -------------------- */
#define SD_STORED_0(f, p, v, ent) ((((uint32_t) (p)) & SF_DEFMASK (f)) == SF_NARROW_PIX (f, v))
#define SD_STORED_1(f, p, v, ent) (((uint32_t) (p)) == (((uint32_t) (ent)[SF_KEY_COLOR (v)]) & SF_PIXMASK (f)))
#define SD_STORED_2(f, p, v, ent) (((uint32_t) (p)) == (((uint32_t) (ent)[SF_KEY_GRAY (v)]) & SF_PIXMASK (f)))
#define SD_STORED(f, p, v, ent)   SF_CAT (SD_STORED_, SF_KIND (f)) (f, p, v, ent)
#define SD_STORE_POST(f, rb, x, k, v, ent) SD_STORED (f, SF_RAW (f, rb, (x) + (k)), v, ent)

/* ---- frame: row bit n is outside the n_done pixels written so far  ==>  it still is the ghost copy's bit ---- */
#define SD_BITOF(byte, n) ((((unsigned) (byte)) >> ((n) & 7u)) & 1u)
#define SD_IN_SPAN(f, n, x, n_done) \
    ((unsigned long) (n) >= (unsigned long) (x) * SF_BPP (f) && (unsigned long) (n) < ((unsigned long) (x) + (unsigned long) (n_done)) * SF_BPP (f))
#define SD_FRAME(f, rb, n, old_byte, x, n_done) \
    (SD_IN_SPAN (f, n, x, n_done) || SD_BITOF ((rb)[(n) >> 3], n) == SD_BITOF (old_byte, n))

/* the same with the bit number n counted from the start of the pixel memory mem, the row starting rowoff bytes into it */
#define SD_FRAME_AT(f, mem, rowoff, n, old_byte, x, n_done) \
    (((unsigned long) (n) >= 8ul * (rowoff) && SD_IN_SPAN (f, (unsigned long) (n) - 8ul * (rowoff), x, n_done)) || \
     SD_BITOF ((mem)[(n) >> 3], n) == SD_BITOF (old_byte, n))

#endif
