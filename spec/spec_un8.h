/* spec_un8.h — per-channel 8-bit compositing specification, written from the
 * Render / PDF equations in the property text (C01), NOT from pixman's macros.
 *
 * Everything is an expression macro so that it can be used inside
 * __CPROVER_loop_invariant / __CPROVER_ensures (no function calls allowed).
 *
 * Rounding rule ("each product rounded to nearest in units of 1/255"):
 *   SP_MUL(a,b) = round-half-up(a*b/255), written division-free; the lemma
 *   510*r <= 2ab+255 < 510*r+510 is discharged in harness/C01/lemmas.c.
 * Sums saturate at 255.
 */
#ifndef SPEC_UN8_H
#define SPEC_UN8_H

#define SP_U(x)      ((unsigned)(x))
/* ((ab+128)*257)>>16 == (t+(t>>8))>>8 with t=ab+128 == round-half-up(ab/255);
 * written so that each operand occurs once (nested specs stay linear in size) */
#define SP_MUL(a, b) (((SP_U(a) * SP_U(b) + 128u) * 257u) >> 16)
#define SP_SAT(x)    ((SP_U(x)) > 255u ? 255u : SP_U(x))
#define SP_INV(a)    (255u - SP_U(a))

/* channel c (0=B,1=G,2=R,3=A) of a packed a8r8g8b8 word */
#define SP_CH(p, c)  ((SP_U(p) >> (8 * (c))) & 0xffu)
#define SP_A(p)      (SP_U(p) >> 24)

/* operator codes used by the spec (independent numbering) */
#define SPOP_CLEAR 0
#define SPOP_SRC 1
#define SPOP_DST 2
#define SPOP_OVER 3
#define SPOP_OVER_REVERSE 4
#define SPOP_IN 5
#define SPOP_IN_REVERSE 6
#define SPOP_OUT 7
#define SPOP_OUT_REVERSE 8
#define SPOP_ATOP 9
#define SPOP_ATOP_REVERSE 10
#define SPOP_XOR 11
#define SPOP_ADD 12
#define SPOP_MULTIPLY 13

/* Porter-Duff factors (Render spec table).  Fa multiplies the (masked)
 * source, Fb the destination.  sa = source alpha *as seen by this channel*
 * (unified: sa*ma; component alpha: sa*m_c), da = destination alpha.
 * A factor of "1" is 255 and SP_MUL(x,255)==x (lemma), "0" is 0. */
#define SP_FA(op, da) \
  ((op) == SPOP_CLEAR ? 0u : (op) == SPOP_SRC ? 255u : (op) == SPOP_DST ? 0u : \
   (op) == SPOP_OVER ? 255u : (op) == SPOP_OVER_REVERSE ? SP_INV(da) : \
   (op) == SPOP_IN ? SP_U(da) : (op) == SPOP_IN_REVERSE ? 0u : \
   (op) == SPOP_OUT ? SP_INV(da) : (op) == SPOP_OUT_REVERSE ? 0u : \
   (op) == SPOP_ATOP ? SP_U(da) : (op) == SPOP_ATOP_REVERSE ? SP_INV(da) : \
   (op) == SPOP_XOR ? SP_INV(da) : /* ADD */ 255u)
#define SP_FB(op, sa) \
  ((op) == SPOP_CLEAR ? 0u : (op) == SPOP_SRC ? 0u : (op) == SPOP_DST ? 255u : \
   (op) == SPOP_OVER ? SP_INV(sa) : (op) == SPOP_OVER_REVERSE ? 255u : \
   (op) == SPOP_IN ? 0u : (op) == SPOP_IN_REVERSE ? SP_U(sa) : \
   (op) == SPOP_OUT ? 0u : (op) == SPOP_OUT_REVERSE ? SP_INV(sa) : \
   (op) == SPOP_ATOP ? SP_INV(sa) : (op) == SPOP_ATOP_REVERSE ? SP_U(sa) : \
   (op) == SPOP_XOR ? SP_INV(sa) : /* ADD */ 255u)

/* One channel of a Porter-Duff/ADD result.
 *   sc  source channel, sa source alpha, mc the mask value that applies to
 *   this channel (unified: mask alpha; component alpha: mask channel c; no
 *   mask: 255), dc destination channel, da destination alpha. */
#define SP_MS(sc, mc)        SP_MUL(sc, mc)          /* masked source channel  */
#define SP_MA(sa, mc)        SP_MUL(sa, mc)          /* alpha seen by channel  */
#define SP_PD(op, sc, sa, mc, dc, da) \
  SP_SAT(SP_MUL(SP_MS(sc, mc), SP_FA(op, da)) + SP_MUL(dc, SP_FB(op, SP_MA(sa, mc))))

/* MULTIPLY (PDF): s*d + s*(1-da) + d*(1-sa), saturating */
#define SP_MULTIPLY(sc, sa, mc, dc, da) \
  SP_SAT(SP_MUL(dc, SP_MS(sc, mc)) + SP_MUL(SP_MS(sc, mc), SP_INV(da)) + \
         SP_MUL(dc, SP_INV(SP_MA(sa, mc))))

#define SP_RESULT(op, sc, sa, mc, dc, da) \
  ((op) == SPOP_MULTIPLY ? SP_MULTIPLY(sc, sa, mc, dc, da) : SP_PD(op, sc, sa, mc, dc, da))

/* Packed-pixel front end: channel c of the result of op for pixels s, m, d.
 * mode 0: no mask, 1: unified mask (alpha of m), 2: component alpha */
#define SP_MC(mode, m, c) ((mode) == 0 ? 255u : (mode) == 1 ? SP_A(m) : SP_CH(m, c))
#define SP_PIX(op, mode, s, m, d, c) \
  SP_RESULT(op, SP_CH(s, c), SP_A(s), SP_MC(mode, m, c), SP_CH(d, c), SP_A(d))

/* ---- PDF separable blend modes evaluated in 8 bits (ISO 32000 11.3.5/6) ----
 * premultiplied form, everything scaled by 255*255:
 *   T = (255-sa)*d + (255-da)*s + da*sa*B(d/da, s/sa)      (colour channels)
 *   T = 255*da + 255*sa - sa*da                            (alpha)
 * result r = round-half-up(clamp(T,0,255^2)/255), stated division-free.
 * Valid only for premultiplied inputs (channel <= alpha): SP_PRE. */
#define SPOP_SCREEN 14
#define SPOP_OVERLAY 15
#define SPOP_DARKEN 16
#define SPOP_LIGHTEN 17
#define SPOP_HARD_LIGHT 18
#define SPOP_DIFFERENCE 19
#define SPOP_EXCLUSION 20
#define SP_I(x) ((int)(x))
#define SP_MIN(a, b) ((a) < (b) ? (a) : (b))
#define SP_MAX(a, b) ((a) > (b) ? (a) : (b))
#define SP_ABS(a) ((a) < 0 ? -(a) : (a))
/* da*sa*B(d/da, s/sa) with B from the PDF table */
#define SP_BLEND(op, d, ad, s, as) \
  ((op) == SPOP_SCREEN ? (s) * (ad) + (d) * (as) - (s) * (d) : \
   (op) == SPOP_OVERLAY ? (2 * (d) < (ad) ? 2 * (s) * (d) : (as) * (ad) - 2 * ((ad) - (d)) * ((as) - (s))) : \
   (op) == SPOP_DARKEN ? SP_MIN ((as) * (d), (ad) * (s)) : \
   (op) == SPOP_LIGHTEN ? SP_MAX ((as) * (d), (ad) * (s)) : \
   (op) == SPOP_HARD_LIGHT ? (2 * (s) < (as) ? 2 * (s) * (d) : (as) * (ad) - 2 * ((ad) - (d)) * ((as) - (s))) : \
   (op) == SPOP_DIFFERENCE ? SP_ABS ((as) * (d) - (ad) * (s)) : \
   /* EXCLUSION */ (s) * (ad) + (d) * (as) - 2 * (d) * (s))
#define SP_CLAMP2(t) ((t) < 0 ? 0 : (t) > 65025 ? 65025 : (t))
/* round-half-up(t/255) for 0 <= t <= 255*255 (lemma) */
#define SP_RND255(t) ((((t) + 128) * 257) >> 16)
#define SP_PDF_T(op, s1, sa1, dc, da) \
  SP_CLAMP2 ((255 - SP_I (sa1)) * SP_I (dc) + (255 - SP_I (da)) * SP_I (s1) + SP_BLEND (op, SP_I (dc), SP_I (da), SP_I (s1), SP_I (sa1)))
#define SP_PDF_TA(sa1, da) SP_CLAMP2 (255 * SP_I (da) + 255 * SP_I (sa1) - SP_I (sa1) * SP_I (da))
#define SP_ROUNDS_TO(r, T) (510 * SP_I (r) <= 2 * (T) + 255 && 2 * (T) + 255 < 510 * SP_I (r) + 510)
#define SP_PDF_OK(op, r, sc, sa, mc, dc, da, is_alpha) \
  ((is_alpha) ? SP_ROUNDS_TO (r, SP_PDF_TA (SP_MA (sa, mc), da)) \
              : SP_ROUNDS_TO (r, SP_PDF_T (op, SP_MS (sc, mc), SP_MA (sa, mc), dc, da)))

/* Uniform postcondition / precondition front end used by the contracts */
#define SP_IS_PDF(op) ((op) >= SPOP_SCREEN)
#define SP_PREMUL(p) (SP_CH (p, 0) <= SP_A (p) && SP_CH (p, 1) <= SP_A (p) && SP_CH (p, 2) <= SP_A (p))
#define SP_PRE(op, s, d) (!SP_IS_PDF (op) || (SP_PREMUL (s) && SP_PREMUL (d)))
#define SP_POST(op, mode, r, s, m, d, c) \
  (SP_IS_PDF (op) ? SP_PDF_OK (op, SP_CH (r, c), SP_CH (s, c), SP_A (s), SP_MC (mode, m, c), SP_CH (d, c), SP_A (d), (c) == 3) \
                  : SP_CH (r, c) == SP_PIX (op, mode, s, m, d, c))

#endif
