/* spec_fixed.h — 16.16 fixed point and the sub-pixel sample grid of the trapezoid
 * rasteriser, written from the property text (C12) and the Render rounding
 * rules, NOT from pixman-private.h:
 *
 *   depth n (1, 4 or 8 bits of alpha): a pixel carries NY(n) x NX(n) sample points,
 *       NY(n) = 2^(n/2) - 1   NX(n) = 2^(n/2) + 1     (so NX*NY == 2^n - 1 == full coverage)
 *       n == 1: one sample, the pixel centre.
 *   rows/columns are evenly spaced by floor(1/N) (in 1/65536 units); the slack
 *   that is left (the "big" step, 65536 - (N-1)*step) is split evenly between the
 *   gap before the first and after the last sample of the pixel, i.e.
 *       first = (65536 - (N-1)*step) / 2
 *   All numbers below are these definitions evaluated by hand; harness
 *   C12/grid.c proves literal == definition, and (as an obligation on the code)
 *   that the macros of pixman-private.h yield the same numbers.
 *
 *   Rows:     a trapezoid [top, bottom) covers the grid rows y with top <= y < bottom.
 *   Columns:  on a row, [lx, rx) covers the grid columns c with lx <= c < rx.
 *   The property fixes "a fixed grid with half-open edges", not the phase of the
 *   grid.  Rows use the nominal phase  first + k*step.  Columns for n > 1 use the
 *   phase  first - 2/65536 + k*step: that is the grid RENDER_SAMPLES_X
 *   implements for both edges (DESIGN.md §1; with the nominal phase rx=0x27fff
 *   adds 3 where the count is 2); n == 1 uses the nominal pixel centre.
 *
 * Everything is an expression macro (usable in loop invariants), arguments are
 * evaluated in 64-bit so no spec expression can overflow.
 */
#ifndef SPEC_FIXED_H
#define SPEC_FIXED_H

typedef long long sf_i64;

#define SF_ONE            65536LL
#define SF_E              1LL
#define SF_INT(v)         ((sf_i64) (v) >> 16)                  /* floor (v / 65536) */
#define SF_FRAC(v)        ((sf_i64) (v) & 0xffffLL)             /* v - 65536*floor(v/65536) */
#define SF_FLOOR(v)       ((sf_i64) (v) & ~0xffffLL)
#define SF_FIXED_MAX      2147483647LL
#define SF_FIXED_MIN      (-2147483647LL - 1)

/* ---- the grid, as literals (n is a compile-time constant 1, 4 or 8) ---- */
#define SF_NY(n)          ((n) == 1 ? 1LL : (n) == 4 ? 3LL : 15LL)
#define SF_NX(n)          ((n) == 1 ? 1LL : (n) == 4 ? 5LL : 17LL)
#define SF_MAXA(n)        ((n) == 1 ? 1LL : (n) == 4 ? 15LL : 255LL)
#define SF_STEP_Y(n)      ((n) == 1 ? 65536LL : (n) == 4 ? 21845LL : 4369LL)
#define SF_BIG_Y(n)       ((n) == 1 ? 65536LL : (n) == 4 ? 21846LL : 4370LL)
#define SF_Y_FIRST(n)     ((n) == 1 ? 32768LL : (n) == 4 ? 10923LL : 2185LL)
#define SF_Y_LAST(n)      ((n) == 1 ? 32768LL : (n) == 4 ? 54613LL : 63351LL)
#define SF_STEP_X(n)      ((n) == 1 ? 65536LL : (n) == 4 ? 13107LL : 3855LL)
#define SF_BIG_X(n)       ((n) == 1 ? 65536LL : (n) == 4 ? 13108LL : 3856LL)
#define SF_X_FIRST(n)     ((n) == 1 ? 32768LL : (n) == 4 ? 6554LL : 1928LL)
/* phase of the column grid actually fixed for the depth (see header comment) */
#define SF_X_PHASE(n)     ((n) == 1 ? 32768LL : (n) == 4 ? 6552LL : 1926LL)

/* k-th grid row / column inside a pixel (k = 0 .. N-1), as an offset from the pixel origin */
#define SF_ROW(n, k)      (SF_Y_FIRST (n) + (sf_i64) (k) * SF_STEP_Y (n))
#define SF_COL(n, k)      (SF_X_PHASE (n) + (sf_i64) (k) * SF_STEP_X (n))

/* y is on a grid row of depth n */
#define SF_ON_ROW(n, y)   (SF_FRAC (y) >= SF_Y_FIRST (n) && SF_FRAC (y) <= SF_Y_LAST (n) && \
                           (SF_FRAC (y) - SF_Y_FIRST (n)) % SF_STEP_Y (n) == 0)
/* the grid row just before / after the grid row y (y must be on the grid) */
#define SF_PREV_ROW(n, y) (SF_FRAC (y) == SF_Y_FIRST (n) ? (sf_i64) (y) - SF_BIG_Y (n) : (sf_i64) (y) - SF_STEP_Y (n))
#define SF_NEXT_ROW(n, y) (SF_FRAC (y) == SF_Y_LAST (n) ? (sf_i64) (y) + SF_BIG_Y (n) : (sf_i64) (y) + SF_STEP_Y (n))
/* largest / smallest grid row representable in int32 16.16 */
#define SF_ROW_MAX(n)     (0x7fff0000LL + SF_Y_LAST (n))
#define SF_ROW_MIN(n)     (-0x80000000LL + SF_Y_FIRST (n))

/* r is THE smallest grid row >= y  (relational: no search, no division by the code's recipe) */
#define SF_IS_CEIL_ROW(n, y, r)   (SF_ON_ROW (n, r) && (sf_i64) (r) >= (sf_i64) (y) && SF_PREV_ROW (n, r) < (sf_i64) (y))
/* r is THE largest grid row strictly < y */
#define SF_IS_FLOOR_ROW(n, y, r)  (SF_ON_ROW (n, r) && (sf_i64) (r) < (sf_i64) (y) && SF_NEXT_ROW (n, r) >= (sf_i64) (y))

/* ---- column coverage ---- */
/* 1 iff column k of pixel px lies in [lx, rx) */
#define SF_IN(n, px, k, lx, rx) \
    ((sf_i64) (lx) <= (sf_i64) (px) * SF_ONE + SF_COL (n, k) && (sf_i64) (px) * SF_ONE + SF_COL (n, k) < (sf_i64) (rx) ? 1 : 0)

#define SF_COUNT_1(px, lx, rx)  (SF_IN (1, px, 0, lx, rx))
#define SF_COUNT_4(px, lx, rx)  (SF_IN (4, px, 0, lx, rx) + SF_IN (4, px, 1, lx, rx) + SF_IN (4, px, 2, lx, rx) + \
                                 SF_IN (4, px, 3, lx, rx) + SF_IN (4, px, 4, lx, rx))
#define SF_COUNT_8(px, lx, rx)  (SF_IN (8, px, 0, lx, rx) + SF_IN (8, px, 1, lx, rx) + SF_IN (8, px, 2, lx, rx) + \
                                 SF_IN (8, px, 3, lx, rx) + SF_IN (8, px, 4, lx, rx) + SF_IN (8, px, 5, lx, rx) + \
                                 SF_IN (8, px, 6, lx, rx) + SF_IN (8, px, 7, lx, rx) + SF_IN (8, px, 8, lx, rx) + \
                                 SF_IN (8, px, 9, lx, rx) + SF_IN (8, px, 10, lx, rx) + SF_IN (8, px, 11, lx, rx) + \
                                 SF_IN (8, px, 12, lx, rx) + SF_IN (8, px, 13, lx, rx) + SF_IN (8, px, 14, lx, rx) + \
                                 SF_IN (8, px, 15, lx, rx) + SF_IN (8, px, 16, lx, rx))
/* number of grid columns c of pixel px with lx <= c < rx */
#define SF_COUNT(n, px, lx, rx) ((n) == 1 ? SF_COUNT_1 (px, lx, rx) : (n) == 4 ? SF_COUNT_4 (px, lx, rx) : SF_COUNT_8 (px, lx, rx))

/* number of grid columns of its own pixel strictly left of x (frac only) */
#define SF_BELOW1(n, k, f)      (SF_COL (n, k) < (sf_i64) (f) ? 1 : 0)
#define SF_BELOW_4(f)           (SF_BELOW1 (4, 0, f) + SF_BELOW1 (4, 1, f) + SF_BELOW1 (4, 2, f) + SF_BELOW1 (4, 3, f) + SF_BELOW1 (4, 4, f))
#define SF_BELOW_8(f)           (SF_BELOW1 (8, 0, f) + SF_BELOW1 (8, 1, f) + SF_BELOW1 (8, 2, f) + SF_BELOW1 (8, 3, f) + \
                                 SF_BELOW1 (8, 4, f) + SF_BELOW1 (8, 5, f) + SF_BELOW1 (8, 6, f) + SF_BELOW1 (8, 7, f) + \
                                 SF_BELOW1 (8, 8, f) + SF_BELOW1 (8, 9, f) + SF_BELOW1 (8, 10, f) + SF_BELOW1 (8, 11, f) + \
                                 SF_BELOW1 (8, 12, f) + SF_BELOW1 (8, 13, f) + SF_BELOW1 (8, 14, f) + SF_BELOW1 (8, 15, f) + \
                                 SF_BELOW1 (8, 16, f))

/* saturating accumulation at depth n */
#define SF_SAT(n, v)            ((sf_i64) (v) > SF_MAXA (n) ? SF_MAXA (n) : (sf_i64) (v))

/* ---- alpha image layout (little-endian host; from the format definitions, C10):
 * a8: pixel x of a row = byte x;  a4: byte x/2, low nibble for even x;  a1: bit (x & 31) of 32-bit word x/32 */
#define SF_GET_A8(row, x)       ((unsigned) ((const unsigned char *) (row))[(x)])
#define SF_GET_A4(row, x)       ((unsigned) ((((const unsigned char *) (row))[(x) >> 1] >> (((x) & 1) * 4)) & 0xf))
#define SF_GET_A1(row, x)       ((unsigned) ((((const unsigned *) (row))[(x) >> 5] >> ((x) & 31)) & 1u))

#endif
