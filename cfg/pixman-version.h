/*
 * Copyright © 2008 Red Hat, Inc.
 *
 * Permission is hereby granted, free of charge, to any person
 * obtaining a copy of this software and associated documentation
 * files (the "Software"), to deal in the Software without
 * restriction, including without limitation the rights to use, copy,
 * modify, merge, publish, distribute, sublicense, and/or sell copies
 * of the Software, and to permit persons to whom the Software is
 * furnished to do so, subject to the following conditions:
 *
 * The above copyright notice and this permission notice shall be
 * included in all copies or substantial portions of the Software.
 *
 * THE SOFTWARE IS PROVIDED "AS IS", WITHOUT WARRANTY OF ANY KIND,
 * EXPRESS OR IMPLIED, INCLUDING BUT NOT LIMITED TO THE WARRANTIES OF
 * MERCHANTABILITY, FITNESS FOR A PARTICULAR PURPOSE AND
 * NONINFRINGEMENT. IN NO EVENT SHALL THE AUTHORS OR COPYRIGHT HOLDERS
 * BE LIABLE FOR ANY CLAIM, DAMAGES OR OTHER LIABILITY, WHETHER IN AN
 * ACTION OF CONTRACT, TORT OR OTHERWISE, ARISING FROM, OUT OF OR IN
 * CONNECTION WITH THE SOFTWARE OR THE USE OR OTHER DEALINGS IN THE
 * SOFTWARE.
 *
 * Author: Carl D. Worth <cworth@cworth.org>
 */

#ifndef PIXMAN_VERSION_H__
#define PIXMAN_VERSION_H__

#ifndef PIXMAN_H__
#  error pixman-version.h should only be included by pixman.h
#endif

#define PIXMAN_VERSION_MAJOR 0
#define PIXMAN_VERSION_MINOR 40
#define PIXMAN_VERSION_MICRO 1

#define PIXMAN_VERSION_STRING "0.40.1"

#define PIXMAN_VERSION_ENCODE(major, minor, micro) (	\
	  ((major) * 10000)				\
	+ ((minor) *   100)				\
	+ ((micro) *     1))

#define PIXMAN_VERSION PIXMAN_VERSION_ENCODE(	\
	PIXMAN_VERSION_MAJOR,			\
	PIXMAN_VERSION_MINOR,			\
	PIXMAN_VERSION_MICRO)

#ifndef PIXMAN_API
# define PIXMAN_API
#endif

#endif /* PIXMAN_VERSION_H__ */
